# Property table for the check driver: which engine decides which property, budgets, evidence texts.

COMMON_ASSUMPTIONS = [
    "Go runtime and testing/synctest (fake clock, quiescence) are trusted",
    "one run = one seed: every choice comes from the recorded choice trace; crypto/rand.Reader is a seeded stream",
    "a clean batch is evidence, not proof: schedules and faults are sampled, not enumerated",
]

ENGINES = {
    "appsim": {
        "serves": ["C20"],
        "kind": "fault enumeration over seeded component configurations (sequential; no schedule dimension)",
        "real_vs_stub": {"real": ["app.App (Register, ChildApp, Start, Close, Component)"],
                         "stub": ["components (harness-owned; fail Init/Run/Close on plan, log every call, issue lookups from Init)"]},
    },
}

PROPS = {
    "C20": {
        "engine": "appsim",
        "level": "fault_enumeration",
        "budget": {"quick": 20, "thorough": 300},
        "rule": "one evaluation = one leg: a seeded container configuration (1-3 nested containers, 1-8 plain/runnable components each, "
                "shadowed names, lookups from Init) executed with one injected failure point (none / Init of i / Run of i / Close error of i / all Close errors); "
                "all legs of a configuration are enumerated. A run is one configuration; it is non-trivial when it has >2 legs; "
                "distinct = distinct (shape, leg sequence) hashes.",
        "assumptions": COMMON_ASSUMPTIONS + ["single failure point per leg; components do not panic"],
        "technique": "deterministic simulation: seeded component configurations, every single injected component failure enumerated, call-log oracle against a reference model",
        "level_text": "For each seeded container configuration every single failure point (Init/Run of each component, Close errors) is enumerated and the "
                      "recorded call log is compared with a reference model written from the property text; configurations are sampled, failure points per configuration are complete.",
        "level_note": "sequential property (no schedule dimension, stated in DESIGN.md); harness components are the only stubs; app.App is the real code",
        "expected_probes": ["lookup-resolved-in-parent"],
    },
}
