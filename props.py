# Property table for the check driver: which engine decides which property, budgets, evidence texts.

COMMON_ASSUMPTIONS = [
    "Go runtime and testing/synctest (fake clock, quiescence) are trusted",
    "one run = one seed: every choice comes from the recorded choice trace; crypto/rand.Reader is a seeded stream",
    "a clean batch is evidence, not proof: schedules and faults are sampled, not enumerated",
]

ENGINES = {
    "appsim": {
        "serves": ["C20"],
        "kind": "fault enumeration over seeded component configurations (sequential; no schedule dimension)",
        "real_vs_stub": {"real": ["app.App (Register, ChildApp, Start, Close, Component)"],
                         "stub": ["components (harness-owned; fail Init/Run/Close on plan, log every call, issue lookups from Init)"]},
    },
}

ENGINES["diffsim"] = {
    "serves": ["C07", "C08"],
    "kind": "seeded operation histories on live ldiff indexes; two-party diff over real wire adapters with fault-injecting transport",
    "real_vs_stub": {"real": ["app/ldiff (diff, hashRanges)", "headsync.NewRemoteDiff / HandleRangeRequest / DiffTypeCheck",
                              "keyvalue.NewRemoteDiff / HandleRangeRequest", "spacesyncproto vtproto codecs"],
                     "stub": ["transport: marshal -> bytes -> unmarshal in process, optional injected transport error at request k"]},
}

ENGINES["tasksim"] = {
    "serves": ["C14", "C16", "C17", "C19"],
    "kind": "real goroutines parked at harness-owned blocking points and simhook yields, released one at a time by the seeded scheduler inside a synctest bubble",
    "real_vs_stub": {"real": ["app/ocache (oCache, entry) with verif yield points", "net/streampool (streamPool, stream, ExecPool) with verif yield points", "github.com/cheggaaa/mb queues"],
                     "stub": ["LoadFunc and Object (harness-owned: every load/Close/TryClose is a scheduler-released blocking point; outcomes chosen by the seed)",
                              "GC ticker disabled; GC runs as an explicit operation with fake-clock jumps past the TTL",
                              "C19: drpc.Stream (healthy / write fails at the k-th send / write blocks forever / remote closes), peer.Peer, StreamHandler (OpenStream latency and failure, incoming messages that change tags), callers"]},
}

ENGINES["treesim"] = {
    "serves": ["C01", "C02", "C06", "C09"],
    "kind": "single-goroutine event loop over 2-4 real sync-tree replicas with a simulated network (message multiset, ordered response streams), crash/restart, seeded fates",
    "real_vs_stub": {"real": ["objecttree (verifying change builder, validator, Tree, treeBuilder, reduce, loadIterator, storage)",
                              "synctree (syncTree, syncHandler, requestFactory, InnerHeadUpdate, response producer/collector, treeRemoteGetter)",
                              "list.AclList (full validation) over any-store", "spacestorage, headstorage, statestorage", "any-store / SQLite on tmpfs",
                              "objectmessages + spacesyncproto/treechangeproto codecs (every message crosses the wire as bytes)"],
                     "stub": ["transport: harness SyncClient (Broadcast/QueueRequest/SendTreeRequest) + in-flight message multiset and response streams",
                              "sync.SyncService queues and objectsync dispatch are bypassed (one object per run)", "syncstatus = no-op", "peers = names only",
                              "ACL records are produced once by the owner (real builder; harness builder in sorted order for removals) and pre-applied on every replica"]},
}

ENGINES["aclsim"] = {
    "serves": ["C03", "C04", "C05"],
    "kind": "single-goroutine event loop: actors with stale real ACL views build records (real builder or, byzantine, raw protobuf) and submit them to a simulated consensus node (real fully validating AclList + acceptor signature); observers follow the chain through a faulty network",
    "real_vs_stub": {"real": ["acl/list (record builder, AclState, content validator, keep-identity partial decoder, in-memory and any-store storage)", "recordverifier (ValidateFull and acceptor verifier)",
                              "util/crypto (Ed25519, X25519 sealed boxes, AES)", "consensusproto / aclrecordproto codecs"],
                     "stub": ["consensus node: real AclList with full validation + harness acceptor signature by a sim network key (no consensus service, no coordinator)", "network between actors, observers and consensus: harness event loop"]},
}

ENGINES["storesim"] = {
    "serves": ["C10"],
    "kind": "fault enumeration over seeded operations: every storage-layer boundary an operation crosses gets a crash image (before and after the call) and an injected error (once or sticky), on the real any-store through a wrapping anystore.DB",
    "real_vs_stub": {"real": ["spacestorage.Create/New", "headstorage", "objecttree (tree, builder, validator, storage, deferred-creation storage)", "acl list + storage", "any-store / SQLite on tmpfs (WAL, synchronous=off)"],
                     "stub": ["faultstore: anystore.DB / Collection / WriteTx / Query wrapper that numbers the calls, returns injected errors and copies the database directory while a call is suspended",
                              "no network: remote changes and ACL records are prebuilt by an author replica in its own database"]},
}

ENGINES["kvsim"] = {
    "serves": ["C12"],
    "kind": "event loop over 2-3 real key-value services (each with its store) with a simulated push network, sync exchanges run by the real services over a harness drpc connection, byzantine values and failing storage writes",
    "real_vs_stub": {"real": ["keyvalue service (SyncWithPeer / syncWithPeer, HandleStoreDiffRequest, HandleStoreElementsRequest, request limiter)", "keyvaluestorage (Set, SetRaw, Iterate) with syncstorage client", "innerstorage (LWW upsert, diff maintenance and rollback)", "app/ldiff", "keyvalue.NewRemoteDiff / HandleRangeRequest", "spacesyncproto drpc client", "acl list (full validation)", "headstorage, spacestorage, any-store"],
                     "stub": ["push transport: harness sync service (BroadcastMessage), messages cross as marshalled StoreKeyValues", "drpc connection between two services: Invoke and NewStream end in the other service's handlers, every message crosses as bytes, the rpc layer's routing read of the first stream message is replayed, the stream from the server can break after k messages",
                              "faultstore for failing writes", "indexer = no-op"]},
}

ENGINES["delsim"] = {
    "serves": ["C15"],
    "kind": "single-goroutine event loop over 2-3 real space nodes (settings object, deletion state, deletion manager with its delete-loop goroutine on the fake clock, head index) with a simulated head-update network, scheduler-released deleter steps and restarts",
    "real_vs_stub": {"real": ["deletionstate", "deletionmanager (deleter, delete loop via periodicsync on the fake clock)", "settings.SettingsObject + settingsstate (state builder, change factory)", "synctree / objecttree (PutSyncTree, BuildSyncTreeOrGetRemote, treeRemoteGetter, Delete)",
                              "headsync.HeadSync component (diff syncer, head updater goroutine, DiffManager, app/ldiff)", "headstorage, spacestorage, acl list, any-store on tmpfs behind the fault-injecting wrapper"],
                     "stub": ["tree manager (harness cache over the real build/put functions; DeleteTree is a blocking point the scheduler releases, honouring cancellation)",
                              "transport: harness SyncClient; head updates cross as bytes through a message pool (any order, dropped, duplicated); requests are served at once",
                              "account / space-state / config / node configuration / peer manager (no peers) / tree syncer / key-value service components; sync status = no-op; object-sync dispatch replaced by the event loop"]},
}

ENGINES["byzsim"] = {
    "serves": ["C11"],
    "kind": "a byzantine peer as a fault kind: a live victim (sync tree over any-store, ACL views of several accounts, ldiff index, secure services, rpc encoding wrapper, pubsub engine) receives structure-aware corruptions of the valid traffic an honest peer produces for the state the victim is in, interleaved with honest progress",
    "real_vs_stub": {"real": ["objecttree (AddRawChanges, ValidateRawTree, change builder/validator, tree builder)", "synctree handlers (HandleHeadUpdate, HandleStreamRequest, HandleResponse) with request factory and response producer, BuildSyncTreeOrGetRemote with the remote getter and the full-response collector", "headsync.NewRemoteDiff (client side)",
                              "acl list (AddRawRecord(s), ValidateRawRecord) in owner/writer/reader views, record builder for the honest history (adds, permission changes, removals with key rotation, invites, join requests, accepts, read-key changes)",
                              "innerstorage.KeyValueFromProto", "headsync.HandleRangeRequest + app/ldiff Diff", "secureservice.HandshakeInbound/Outbound (both credential checkers, handshake frame reader)",
                              "spacepayloads validators", "util/crypto decoders and decrypters", "net/rpc/encoding (proto and snappy wrappers)", "pubsub.HandleMessage", "spacestorage, any-store on tmpfs"],
                     "stub": ["transport: hostile bytes are handed to the entry point directly (sync client records what the victim would send); the honest peer is a second real node",
                              "ldiff remote that lies (result counts, hashes, element lists, result list lengths chosen by the seed)", "scripted byte stream for handshakes"]},
}

PROPS = {
    "C01": {
        "engine": "treesim",
        "level": "exploration",
        "budget": {"quick": 60, "thorough": 900},
        "rule": "one run = 2-4 replicas of one tree (own any-store each, real ACL with one writer account per replica), up to 40 local AddContent (plain/snapshot, 0-35% snapshots, encrypted in 30%) "
                "interleaved by the seeded scheduler with per-message fates deliver-any (reordering) / drop / duplicate, response-stream batch delivery / stream break, crash and restart from storage; "
                "then faults stop, the network drains and pairwise anti-entropy runs until a fixpoint (cap N+2 rounds). Step invariants after every event on the touched replica. "
                "Non-trivial: >=2 changes created and (>=1 fault fired or the run is one of the ~10% fault-free runs). Distinct = distinct event-kind sequences; states = per-replica (stored count, head count) shapes.",
        "assumptions": COMMON_ASSUMPTIONS + ["a responder produces all batches of a response at request time (its tree does not change between batches)",
                                             "crash = loss of all in-memory state with the any-store file as left by completed calls (C10 covers mid-call crashes)",
                                             "ACL is identical and complete on all replicas in C01 runs (C02 covers lagging ACL)"],
        "technique": "deterministic simulation: seeded message schedule with loss/duplication/reordering/stream breaks/crash-restart over real sync-tree replicas, step invariants + convergence oracle after a fair heal phase",
        "level_text": "Seeded exploration of message schedules and fault sequences over real replicas; invariants (storage closure, heads recorded = heads held, order respects causality, advertised subset of held) "
                      "after every event, convergence (equal heads and stored sets = union of created changes) after faults stop and a fair anti-entropy phase.",
        "level_note": "real tree/sync/ACL/storage code; network and scheduling are simulated; liveness asserted only after faults stop",
        "expected_probes": [],
    },
    "C02": {
        "engine": "treesim",
        "level": "exploration",
        "budget": {"quick": 60, "thorough": 900},
        "rule": "[the content id of the reference predicate is computed by the harness from the digest, not by the library; forged ids include other spellings of the same digest (other multibase, raw codec); scripted ACL records include ones that change one account twice (writer first, reader last)] one run = 2-4 real replicas of one unencrypted tree and a scripted ACL history of 3-9 records (replica accounts and two extra accounts added as writer/reader, re-permissioned, removed with key rotation, re-added) "
                "that reaches every replica record by record at seeded points, so changes can arrive before the record they cite. Besides the C01 schedule faults, two byzantine fault kinds: "
                "(a) one of 11 structure-aware mutations of a change inside a head update in flight (payload/signature/content byte flips with and without recomputed id, foreign id, author swapped with and without re-signing, cited ACL record re-pointed with and without re-signing, parents edited, signature stripped, timestamp edited); "
                "(b) a byzantine author holding every account's key builds well-formed signed changes on a donor replica's heads for any account and any (also unknown) cited record and sends them to a victim. "
                "Oracles: reference predicate from the property text (id = CID(bytes); signature verifies under the named identity; that identity is a writer at the cited record per the harness's own scripted timeline; cited record index >= every parent's; cited record held by the replica) "
                "evaluated on every stored change of the touched replica after every delivery; stored bytes must equal the ground-truth bytes; a delivery rejected with an error leaves heads, IterateRoot sequence and stored set unchanged; "
                "at the end all ACL records arrive, the network drains and the predicate is re-evaluated everywhere. evaluations = (replica, change) admissibility judgements. ~10% of runs have no byzantine faults.",
        "assumptions": COMMON_ASSUMPTIONS + ["the scripted permission timeline (none/reader/writer per record and account) is computed by the harness from the script, not read from the ACL implementation",
                                             "Ed25519 verification and CID computation are trusted primitives", "safety only: no convergence claim under byzantine input (C01 covers honest convergence)"],
        "technique": "deterministic simulation: seeded schedules with lagging ACL delivery, in-flight structure-aware corruption and a byzantine author over real replicas; reference-predicate oracle on every stored change, unchanged-state oracle on every rejected delivery",
        "level_text": "Seeded exploration of message/ACL schedules with byzantine fault kinds; an independent reference predicate decides admissibility of every stored change on every replica after every delivery, and rejected deliveries must leave state untouched.",
        "level_note": "real tree/sync/ACL/storage code; byzantine inputs are built by the harness from the protobuf types; primitives (Ed25519, CID) trusted",
        "expected_probes": ["byz-admissible-built", "byz-inadmissible-built", "byz-admissible-accepted", "delivery-rejected"],
    },
    "C03": {
        "engine": "aclsim",
        "level": "exploration",
        "budget": {"quick": 60, "thorough": 900},
        "rule": "one run = an honest chain (owner bootstrap + 15-80 events; every record kind of the real builder incl. multi-content batches, actors on stale views, consensus = real fully validating list + network-key acceptor signature) followed by 3-6 observer replicas drawn from "
                "{in-memory, any-store} x {full validation, acceptor verifier with keep-only-ours partial decode} x identity {owner, member, outsider, node}. Events per observer: next record alone; batch overlapping known records; catch-up with the raw records another observer serves (RecordsAfter, also from a partial-decode observer); "
                "duplicate; gap (record not extending the head); corruption in flight, alone or inside a batch (byte flip keeping the id; signed payload / author signature / acceptor signature flips with recomputed id; rogue acceptor key; foreign id; everything validly re-signed but extending an older head); restart = rebuild from the database. "
                "Oracles after every event: storage is a byte-exact prefix of the chain and RecordsAfter serves exactly the consensus bytes; head = last stored record; public state (owner, per-account permission+status, invites, pending requests, read-key ids, current key id, options) equals the consensus state at that head; "
                "the set of readable key generations equals that of a reference list for the same identity (full decode, validating, in-memory, one at a time); a refused single record leaves digest and storage unchanged; a damaged record is never accepted; authentic records are never refused. Heal: everyone catches up and any-store observers are reopened once more. evaluations = observer checks.",
        "assumptions": COMMON_ASSUMPTIONS + ["symbolic replay (records named by chain index): builder output is not byte-deterministic across executions of a seed",
                                             "acceptor-field damage is delivered only to acceptor-verifying observers (a fully validating list legitimately ignores acceptor fields)",
                                             "the consensus node is honest: no equivocation"],
        "technique": "deterministic simulation: seeded delivery schedules (batching, duplication, gaps, corruption, catch-up, restart) of an honest ACL chain to observer replicas in all storage/verifier/identity modes; differential state oracle against the consensus state and a per-identity reference",
        "level_text": "Seeded exploration of ingestion paths and network faults over observers in every decode/storage mode; differential oracle (state at head k must equal the reference at k) plus unchanged-on-reject and never-accept-damaged checks after every event.",
        "level_note": "real ACL list/state/builder/storages/verifiers; chain production and delivery are simulated",
        "expected_probes": ["batch-with-known-records", "catch-up-served-by-partial-decoder", "corrupt-in-batch"],
    },
    "C04": {
        "engine": "aclsim",
        "level": "exploration",
        "budget": {"quick": 60, "thorough": 900},
        "rule": "one run = 5-8 accounts (owner + others whose roles emerge from the run), 8-45 submissions to a fully validating consensus list. Honest submissions: every record kind of the real client-side builder (invites of both types, join request, invite join, accept, decline, cancel, permission change, add, remove with rotation, invite revoke/change, ownership transfer, options, request-remove, rotation, multi-content batch) built against the actor's own view, 15% of them stale. "
                "Byzantine submissions (0/30/60/85% of a run): AclData with 1-3 contents assembled directly from the protobuf types - all 16 content kinds with author, target, permission level (all six incl. None/Owner), invite id and request id drawn from every id that exists (invites, requests, arbitrary records, a bogus id), real invite-key signatures or garbage - correctly signed by any account (owner, admins, members, removed, outsiders) on top of the current head. "
                "Oracle after every accepted record: delta invariants over the public state before/after written from the property text (one owner; Admin role enters/leaves only by the owner's record or by self-join through an owner-issued Admin-level open invite; ownership only by the owner to an active member, old owner keeps a role; options only by owner; other accounts, invites and others' requests change only by owner/admin; guests stay guest or leave; outsiders gain access only through a live open invite within its permissions; no self-promotion). evaluations = accepted records judged.",
        "assumptions": COMMON_ASSUMPTIONS + ["records are not byte-deterministic across executions of one seed (the real builder ranges over Go maps while consuming randomness); control flow, logs and replay are symbolic (account names, chain indexes) and never depend on record bytes",
                                             "the delta invariants are over public accessors of AclState (permissions, status, invites, pending requests, options, owner)"],
        "technique": "deterministic simulation: seeded multi-party histories over a simulated consensus node with byzantine participants building raw records; delta-invariant oracle on every accepted record",
        "level_text": "Seeded exploration of reachable ACL states through interleavings of honest (stale-view) and byzantine submissions; every accepted record is judged by delta invariants that do not use validator.go.",
        "level_note": "real ACL list/state/validator/builder; consensus ordering is a harness stub around a real validating list",
        "expected_probes": [],
    },
    "C05": {
        "engine": "aclsim",
        "level": "exploration",
        "budget": {"quick": 60, "thorough": 900},
        "rule": "[also: faulty rotations - built with the real builder, one member listed twice and one left out before signing - must be refused or leave every member able to derive; empty content added as encrypted; the key generation in force at every record (ReadKeyForAclId) against the last generation introduced at or before it] one run = an honest chain in a shareable space (5-8 accounts, owner bootstrap, 10-60 events: request+approve, open-invite join, direct add, remove with rotation, leave request, invite revoke alone or in a batch with rotation/removal, invite change, stand-alone rotation, permission changes, re-add, ownership transfer; actors on stale views) interleaved with encrypted AddContent on one object tree by current writers. "
                "After every accepted record every account rebuilds its own view (own keys only, full validation) and the oracles run: every account holding a permission derives every key generation (byte-equal across members) and has a current read key; an account holding none derives no generation introduced after it last held one; "
                "for rotations in simple records the new key is encrypted to exactly the accounts keeping access and exactly the open invites staying live, and no revoked invite key opens any entry. Tree: stored/transmitted change bytes never contain the plaintext marker, the change names the current key generation and decrypts under the per-tree key derived from it, "
                "every current member reads every change back as the original through IterateRoot, an account without the key never sees plaintext of later generations, and building an encrypted change with a nil key returns ErrMissingEncryptKey. evaluations = per-account derivation checks.",
        "assumptions": COMMON_ASSUMPTIONS + ["honest managers (a byzantine manager can always write garbage ciphertext; that is C04/C11 territory)",
                                             "content keys are derived per tree from the read key (crypto.AnysyncTreePath), as documented in the code",
                                             "symbolic replay: builder output is not byte-deterministic across executions of a seed"],
        "technique": "deterministic simulation: seeded multi-party membership histories (stale views, every join/leave route) interleaved with encrypted tree edits; per-account key-derivation oracles from the raw log after every accepted record",
        "level_text": "Seeded exploration of membership histories; after every accepted record each account's private view is rebuilt from the raw log with its own keys and judged (members derive all generations, non-members none of the later ones, revoked invites open nothing); encrypted tree content is checked for ciphertext-only storage and read-back by every member.",
        "level_note": "real ACL builder/state/validator, real object tree with encryption; consensus ordering simulated",
        "expected_probes": ["rotation-judged", "member-read-back"],
    },
    "C06": {
        "engine": "treesim",
        "level": "exploration",
        "budget": {"quick": 60, "thorough": 900},
        "rule": "one run = a C01 run (2-4 real replicas, seeded schedule with loss/dup/reorder/stream breaks/crash-restart) plus 1-3 passive receivers that are fed the run's recorded head updates afterwards in a seeded permutation "
                "(random subset, duplicates, reopen-from-storage at random points, then an in-order completion pass). Order oracles every 4th step, after convergence and during redelivery: stored order (ascending order id) == order of a tree rebuilt in full from storage; "
                "live view (incrementally grown / reduced / reopened) == full order restricted to its members; history view up to a random change likewise; parents first in stored and presented order; order ids of stored changes never change; "
                "replicas holding equal change sets store identical sequences; an addition reported as Append (listener Update or local AddContent) leaves the previously presented sequence a prefix of the new one (modulo members dropped by reduction). "
                "the add-sequence views (changes stored after insert number k, k = 0 and a seeded cut) equal the full order restricted to them. evaluations = per-replica order checks. Non-trivial as C01.",
        "assumptions": COMMON_ASSUMPTIONS + ["differential oracle: the reference order is the real tree builder's full rebuild from storage (the property's own 'incremental equals rebuilt'); the sort is not re-implemented",
                                             "only deliveries the protocol produces are used (real head updates / responses), so every receiver state is legitimate"],
        "technique": "deterministic simulation: seeded message schedules and redelivery permutations over real replicas, differential order oracles (incremental vs rebuilt vs reduced vs reopened vs other replicas) after every few events",
        "level_text": "Seeded exploration of arrival orders, batchings and duplications (in-run and by redelivery to passive receivers) with differential order oracles evaluated during the run and over the final states.",
        "level_note": "real tree/sync/storage code; reference order = full rebuild by the same tree builder; network simulated",
        "expected_probes": ["append-verdict", "rebuild-verdict", "reduced-view-checked", "equal-sets-compared", "history-view-checked", "passive-complete"],
    },
    "C09": {
        "engine": "treesim",
        "level": "exploration",
        "budget": {"quick": 60, "thorough": 900},
        "rule": "[between the load of the response iterator and the batches, and between batches, deliveries to the responder and its own edits are let in (25% each point): the response must still carry everything the responder held when it handled the request] one run = a C01 run; at sampled points (15% of steps, and twice after convergence) an ordered pair (responder R, requester Q) of live replicas is probed: Q's real (heads, snapshot path) or an empty-heads request, batch limit from {1,64,200,400,900,2000,5000,1MiB} bytes, "
                "batches produced by the real response producer / load iterator on R's live tree and storage; oracles on the batch sequence (complete w.r.t. R.stored minus Q.stored, parents-first among what Q lacks, size <= limit unless single change, announced heads sent-or-held, no duplicates, bytes = stored bytes) "
                "and on applying them through the wire (marshal, unmarshal, HandleResponse) to a clone of Q (copied database reopened): no error, every change of every batch stored afterwards, final set = union. evaluations = probes. Non-trivial as C01.",
        "assumptions": COMMON_ASSUMPTIONS + ["requests are honest: the requester's real heads and snapshot path at probe time, or the empty request",
                                             "the clone is Q reopened from a copy of its database at a quiescent point (not Q's in-memory tree)"],
        "technique": "deterministic simulation: states reached by seeded schedules of real replicas, full-sync responder probed per ordered pair with a swarm of batch limits, batch-sequence oracles + apply-to-clone oracle",
        "level_text": "Seeded exploration: responder/requester state pairs are produced by simulated histories (diverged, behind, reduced, concurrent snapshots), batch limits from a swarm; oracles on the produced batches and on applying them to a clone.",
        "level_note": "real response producer, load iterator, handler and storage; pairs and limits are sampled",
        "expected_probes": ["multi-batch-response", "probe-diverged", "probe-requester-behind", "probe-empty-heads"],
    },
    "C10": {
        "engine": "storesim",
        "level": "fault_enumeration",
        "budget": {"quick": 60, "thorough": 900},
        "rule": "one run = one seeded operation on a seeded pre-state out of: space create; tree create (eager); tree create with deferred storage + first batch of remote changes; local add; local snapshot add; remote add of a suffix the replica lacks; remote add that forces rebuild-from-storage (replica reduced to its own later snapshot, incoming change based on the older one); ACL AddRawRecord (on chains of 1-3 earlier records). "
                "Pass 0 counts the storage-layer boundaries the operation crosses (begin tx, every Insert/Upsert/Update/Delete/query delete, collection and index creation, commit, rollback; in half of the runs also every read). Then for EVERY boundary k: a crash leg (copy of the database directory taken before and after call k, reopened in a fresh handle) and an error leg (call k returns an error, once or - 30% - for all later writes too), followed by the same input again. "
                "Oracles: each crash image opens, its logical dump (head entries with heads/common snapshot/deleted status, per tree every change with parents/snapshot base/order id, ACL records and head) equals the dump before or the dump after the operation, recorded heads name stored changes, parents and snapshot bases are stored, order respects causality, the ACL head is the last record of a contiguous chain, tree and ACL rebuild from storage with those heads; "
                "after an injected error the live object's heads/head equal storage's, the retry succeeds (or says 'exists' when the first attempt was durable) and the durable state is the after-state. evaluations = legs.",
        "assumptions": COMMON_ASSUMPTIONS + ["crash = process death: the files as the OS holds them at that instant; power loss (unsynced or torn pages) has no seam short of forking any-store and is not modelled; SQLite's atomic commit is trusted",
                                             "operations are made deterministic (unencrypted content, fixed timestamps, prebuilt records) so that every leg has the same before/after dumps",
                                             "an injected commit failure rolls the transaction back (nothing durable)"],
        "technique": "deterministic simulation with exhaustive fault enumeration per sampled operation: crash image and injected error at every storage boundary on the real store, atomicity / structural / retry oracles",
        "level_text": "Operations and pre-states are sampled from a seed; for each sampled operation the storage boundaries are enumerated completely (operations crossing more than 60 boundaries - the 500+ change batch - get 3 first, 3 last and 5 seeded boundaries instead): one crash image before and after every call and one injected error (single or sticky) at every call, each judged by the all-or-nothing, structural and retry oracles.",
        "level_note": "real storage stack down to SQLite; power-loss semantics not modelled; boundaries = calls through the anystore interfaces",
        "expected_probes": ["image=before", "image=after", "operation-reported-the-error"],
    },
    "C11": {
        "engine": "byzsim",
        "level": "exploration",
        "budget": {"quick": 60, "thorough": 900},
        "rule": "[lying remotes are diffed with Diff and with the comparing variant (what key-value sync runs); claimed handshake lengths include 2^29 and the values past the 32-bit sign bit] one run = a random non-empty subset of 9 entry-point families (tree, acl, kv, diff, handshake, payload, crypto, encoding, pubsub) and 20-120 steps; a step is honest progress (the honest peer edits the tree incl. snapshots and encrypted content; the owner or a joining account appends the next valid ACL record; index grows) or one hostile delivery guarded by the three oracles. "
                "Hostile inputs are derived from the valid message for the victim's current state by a type-independent protobuf wire mutator (field removed / duplicated / reordered / renumbered, wire type changed, varint zero / extreme / bit flip, byte string emptied / shortened to 1-40 bytes / replaced by 1,31,32,33,64,200 random bytes, length prefix edited to +-1, +100, 0, 2^20, 2^31, 2^32-1, 2^62, truncation anywhere, field spliced from another message of the same world, raw bit flips / random bytes / duplicated segments) "
                "applied at every nesting level: sync envelope, tree message, change envelope, signed change content (then signed again by owner, writer or reader so that it passes the signature check), ACL record envelope, signed record, ACL content incl. encrypted read keys and invite keys (signed again by owner or member), key-value envelope and signed inner value, head-sync request, handshake frame payloads and headers (types 0-4, sizes 0..2^29, cut frames), space header / ACL root / settings root, key and ciphertext blobs, encoded rpc frames incl. snappy blocks that claim 2^20..2^29 decoded bytes, pubsub frames; "
                "plus reference edits on changes (0-3 arbitrary parents incl. trimmed, unknown and odd ids, duplicated parents, re-pointed snapshot base, flipped snapshot flag, replaced ACL head / read key id, attachment to the root after snapshots) and on records (previous id replaced), arbitrary heads and snapshot paths, a whole hostile tree offered for creation, a fetch of a tree the victim does not hold answered with corrupted or missing responses, an honest head-sync server whose answers are corrupted on the wire, and an ldiff remote that lies. "
                "Oracles per delivery: no panic (recover; panics in goroutines of the code under test kill the worker and are classified by the driver), the call returns (real-time watchdog outside the bubble, 20 s; fake-clock deadlines for blocking reads; 5000-request and 10000-response caps), bytes allocated during the call <= 48 MiB + 512 x input size (runtime.MemStats.TotalAlloc delta). evaluations = guarded deliveries.",
        "assumptions": COMMON_ASSUMPTIONS + ["the coverage-guided byte-string half of the quantifier is fuzzing and outside this technique: inputs here are corruptions of traffic the simulated system itself produced in states it reached",
                                             "accepted hostile input is not judged here (C02-C04, C12, C14, C17 decide what may be accepted); an ACL view that accepts a hostile record is rebuilt from the authoritative history",
                                             "allocation is measured process-wide between two points of a single-goroutine call; constants are generous so that only length-field-driven allocation trips the bound"],
        "technique": "deterministic simulation: byzantine-peer fault injection - seeded structure-aware corruption (re-signed where needed) of valid traffic delivered to the real entry points of a live victim in the state the simulation reached; panic, non-termination (real-time watchdog) and allocation-bound oracles per delivery",
        "level_text": "Seeded exploration of (victim state x entry point x corruption) with honest progress in between; every delivery runs under panic, hang and allocation oracles.",
        "level_note": "all parsing/validating code is real; the honest peer is a second real node; hostile bytes are handed to the entry points directly",
        "expected_probes": [],
    },
    "C12": {
        "engine": "kvsim",
        "level": "exploration",
        "budget": {"quick": 90, "thorough": 900},
        "rule": "[relabelled values go to another device's slot or to the slot of a longer key of the same device] one run = 2-3 stores (own any-store, own device key, accounts owner/writer with several devices) over a scripted ACL (writer and a later-removed member added, reader added, member removed with rotation), 10-70 events: local Set on 1-3 keys (fake clock advanced so timestamps differ), pushed batches delivered in any order / dropped / duplicated, "
                "sync exchanges run by the real services (SyncWithPeer over a harness connection into the peer's HandleStoreDiffRequest / HandleStoreElementsRequest; the stream from the server may break after k messages), byzantine or unusual values pushed to a node (any device signing for its account citing any record; relabelled slot; foreign account signature; swapped signatures; byte edited after signing; unknown ACL record; valid value of a writer's second device with a skewed clock; removed member), "
                "and - in 30% of runs - one node on a faultstore whose local and remote writes fail at a seeded storage call. 25% of runs keep some nodes behind on the ACL (safety only). "
                "Oracles after every event on the touched node: stored contents = reference model (per slot the valid value with the greatest timestamp received; validity = both signatures over exactly the stored bytes, slot = key + '-' + signing device named inside them, signer a writer at the cited and locally known ACL record per the harness's own timeline); "
                "every stored value itself satisfies the validity predicate; index entries = {(slot, timestamp)}, advertised hash = hash of a fresh index over them, head-storage entry = that hash - also right after failed writes. after one complete (unbroken, fault-free) exchange between two nodes that know the whole ACL their stored contents are equal; a rare big-store scenario (257-396 values on one node) makes range answers carry elements for several ranges. After heal (all delivered, one sync per ordered pair) all stores hold equal contents and hashes. evaluations = node checks.",
        "assumptions": COMMON_ASSUMPTIONS + ["all nodes share one fake clock (per-device skew only through crafted values)", "equal timestamps in one slot: the value received first stays (the code's documented >= rule)",
                                             "convergence is asserted only in runs where every node holds the whole ACL"],
        "technique": "deterministic simulation: seeded delivery orders, groupings, repetitions, pull exchanges with stream breaks, byzantine values and failing writes over real stores; reference-model oracle (LWW over valid values), validity predicate on stored values, index = contents invariant, convergence after heal",
        "level_text": "Seeded exploration of arrival orders, batchings, duplications, broken pulls, byzantine values and storage faults; after every event the store, its advertised index and the recorded hash are compared with a reference model built from the property text.",
        "level_note": "real key-value service and storage stack; the push network and the drpc connection are harness stubs",
        "expected_probes": [],
    },
    "C14": {
        "engine": "tasksim",
        "level": "exploration",
        "budget": {"quick": 40, "thorough": 600},
        "rule": "one run = 2-3 real secure services (protocol version 11-14 or 0 = no version on the wire, accepted-version lists, RequireClientAuth, node or client role through a node-configuration stub) and 1-3 concurrent connections between seeded (dialer, listener) pairs, with or without CtxAllowAccountCheck; each end runs HandshakeOutbound/HandshakeInbound over a harness byte pipe with a 30 s deadline on the fake clock. "
                "The scheduler orders every Read/Write of every handshake goroutine (pooled handshake objects are reused across connections), chooses every chunk size (60% of runs), and in 65% of runs injects network faults into unfinished connections: truncation at any byte, garbage bytes, oversized frame headers, reordered / duplicated / unexpected frames, credentials recorded on a connection between other endpoints, a direction that goes silent forever. "
                "Oracles: every side returns by its deadline; without faults both sides reach the same verdict and it is success exactly when each version is in the other's accepted list and identity demands match (reference predicate over the configuration, independent of the checkers); on success the context carries the remote peer id and version, and the remote account identity exactly when that side verified; "
                "with faults a side reports success only if what it consumed is exactly the two authentic frames of this connection, in order and in full (two-generals guard: the other side may legitimately fail), and never when the configuration forbids the handshake. evaluations = connections judged.",
        "assumptions": COMMON_ASSUMPTIONS + ["libp2p TLS is skipped: the handshake API takes the byte stream and the transport peer id TLS would have authenticated; forged well-formed frames (e.g. an OK ack injected exactly where an ack is expected) are excluded because only the transport's integrity protection rules them out",
                                             "the protocol-negotiation handshake (proto.go) is not part of the property"],
        "technique": "deterministic simulation: seeded scheduling of both handshake ends over a simulated byte pipe (chunking, truncation, garbage, oversized, out-of-order, cross-connection replay, silence), fake-clock deadlines; verdict oracle from a reference predicate and authentic-consumption oracle",
        "level_text": "Seeded exploration of configurations, chunkings, interleavings of concurrent handshakes and network faults over the real secure service; verdicts compared with a reference predicate, success only on authentic in-order input, bounded wait.",
        "level_note": "secureservice + handshake real; pipe, clock, account/nodeconf/config components are harness-owned; TLS not simulated",
        "expected_probes": ["clean-handshake-true", "clean-handshake-false", "faulty-handshake"],
    },
    "C16": {
        "engine": "tasksim",
        "level": "exploration",
        "budget": {"quick": 40, "thorough": 600},
        "race_leg": True,
        "rule": "[in 40% of runs the loader sometimes returns its object although the load's context has ended; every Close/TryClose is attributed to the operation running on that goroutine: RemoveSame closes only the instance it was given, Remove/TryRemove only their id] one run = 2-4 concurrent tasks (15% long runs: 3-6 tasks x 8-30 ops) issuing Get/Pick/Add/Remove/RemoveSame/TryRemove/GC/Close/DoLockedIfNotExists on 1-2 ids; "
                "the seeded scheduler orders every pass through load start/end, Close start/end, TryClose verdict (true/false) and 14 yield points inside ocache, "
                "chooses load outcomes (ok/error/nil), close errors, caller-context cancellations and clock jumps past the TTL; then the cache is closed. "
                "Non-trivial: >=6 scheduler grants and >=1 instance created. Distinct = distinct event-kind sequences; interleavings = distinct scheduler decision sequences.",
        "assumptions": COMMON_ASSUMPTIONS + ["interleavings are at the granularity of harness blocking points and the yield points added under build tag verif; data races between yields are left to the -race leg of the thorough tier",
                                             "the fake clock is not advanced while cache.Close is in progress (its 10 s closeTimeout trade-off is documented behaviour, not a finding)"],
        "technique": "deterministic simulation: seeded task scheduler over real goroutines (synctest bubble, yield hooks), history-predicate oracles on load/close events",
        "level_text": "Seeded exploration of interleavings of the real ocache code at its blocking points; oracles are predicates over the recorded load/close/return history "
                      "(one live instance per id, no double close, nothing returned unloaded or after its removal completed, nothing left open after shutdown, no panic, no task blocked forever).",
        "level_note": "ocache is real; the loader and objects are harness stubs; scheduler granularity = yield points",
        "expected_probes": [],
    },
    "C07": {
        "engine": "diffsim",
        "level": "exploration",
        "budget": {"quick": 40, "thorough": 600},
        "rule": "[heads have one length, several lengths (a longer head may be the smaller string) or include the empty string, per run] one run = two parties whose indexes are reached through independent seeded histories (Set new/existing/multi, RemoveId) from a common base, "
                "with swarm parameters (divide factor 2..64, threshold 1..512, uniform / hash-prefix-skewed / mixed id pools, pool 3..1500, up to 20000 in thorough), "
                "1-4 rounds of mutate + diff in both directions through direct / head-sync wire / key-value wire adapters, both diff variants, transport error at request k in ~12% of exchanges. "
                "Non-trivial: at least one exchange with a non-empty expected difference that needed >=2 range requests. Distinct = distinct event-kind sequences.",
        "assumptions": COMMON_ASSUMPTIONS + ["both parties use the same divide factor and threshold (protocol constants in production: 32/256)",
                                             "static contents during one exchange; the schedule dimension is degenerate for this property (DESIGN.md C07 fit note)"],
        "technique": "deterministic simulation: seeded two-party histories and parameter swarm, diff over real wire adapters with injected transport faults, exact set-difference oracle and request bound",
        "level_text": "Seeded exploration of pairs of index states reached through operation histories, diffed through the real request/response encoders; the oracle is the exact set difference "
                      "computed from the model, plus a bound on range requests (termination). Sampling, not enumeration.",
        "level_note": "ldiff, both remote-diff adapters and the protobuf codecs are real; the network is an in-process byte round trip",
        "expected_probes": ["deep-split(>=3 rounds)", "deep-split(>=6 rounds)"],
    },
    "C08": {
        "engine": "diffsim",
        "level": "exploration",
        "budget": {"quick": 40, "thorough": 600},
        "rule": "one run = a seeded history (5-120 ops: Set new / existing same head / existing new head / multi-element, RemoveId present / absent, restart = rebuild from contents) on a live index; "
                "after every operation the live index is compared with an index freshly filled in one call (Hash, and Ranges answers for the whole range, the canonical subdivision 3 levels deep and one occupied path 16 levels deep, with and without Elements); "
                "at the end a second live index reaching the same contents by a shuffled history with temporary and stale entries is compared too and DiffTypeCheck must say in-sync. "
                "Heads have one length, several lengths (a longer head may be the smaller string) or include the empty string, per run. "
                "Two further legs (20% of runs each) keep an index beside a real store on any-store: the real headsync.DiffManager over real head and state storage (entries left by an older version - with and without common snapshot, derived or not, root-only - then creations, head moves, deletions queued and carried out, restarts) and the real key-value inner storage (batches of Set with timestamps that are small, around 2^53, around 2^62 and nanosecond stamps; restarts); after every step the maintained index must answer like an index rebuilt from the store, and the stored space hash must be the live index's hash. "
                "evaluations = index comparisons. Non-trivial: >=3 operation kinds and non-empty final contents.",
        "assumptions": COMMON_ASSUMPTIONS + ["in the storage legs the space-storage shell, the ACL (only logged) and the deletion state (a set) are stubs; head updates reach the DiffManager synchronously (the real head updater queue is exercised by the C15 engine)"],
        "technique": "deterministic simulation: seeded operation histories with restart-as-operation, differential oracle against a freshly rebuilt index after every step",
        "level_text": "Seeded exploration of operation histories with a differential oracle (live index vs freshly filled index vs second history) evaluated after every operation.",
        "level_note": "ldiff is real; reference = the same code filled in one call (the property's own definition of history independence); storage legs: headsync.DiffManager, headstorage, statestorage, key-value innerstorage and any-store/SQLite are real, stubs are the space-storage shell, the ACL (only logged) and the deletion state (a set)",
    },
    "C17": {
        "engine": "tasksim",
        "level": "exploration",
        "budget": {"quick": 60, "thorough": 900},
        "race_leg": True,
        "rule": "one run = one real pubsub engine in the relay role (node; 0-2 other responsible nodes) and 1-2 real pubsub engines in the client role (accounts A, B), each with its private stream pool, dial pool, dispatch loop and resync loop on the fake clock; a harness membership table (accounts A, B, C x spaces sA, sB) that changes during the run; in 15% of runs the node has no membership checker (every proven identity may subscribe and publish); in 20% the node's publish budget is in reach (1 message/s, burst 2-4: the model keeps a token bucket per peer, spent by authorised client publishes only). "
                "40-260 actions: the seeded scheduler runs one goroutine up to its next blocking point (every MsgRecv/MsgSend of every stream end and the yield points inside the engine and the pool: before each lock of handleSubscribe/handleUnsubscribe/fanout/evict/CloseSpace/onStreamClose, between dropping interest and dropping tags, addStream/removeStream/streamClose/Broadcast/SendById/getStreams); "
                "remotes open streams to the node (accounts A/B/C, a second device of an account, an unverified peer, another responsible node) and send subscribe frames (1-3 valid patterns over the segment alphabet {a, b, acc, account ids, *, >}; invalid patterns: empty, leading/trailing/doubled separator, wildcard in the middle of a segment, '>' not last, 17 segments, 257 bytes; bad or foreign space ids), unsubscribe frames (one pattern, all, unknown), "
                "publish frames (well-formed; invalid topic, short id, oversized, someone else's acc/ topic, identity replaced or missing, damaged signature, relayed flag from non-nodes, relayed messages from other nodes, foreign space), status/empty frames; remotes close; node writes fail; the node calls EvictMember / RevalidateMembers / CloseSpace; "
                "clients call Subscribe / unsubscribe / Publish / CloseSpace / SyncInterest and go offline/online (their streams to the node are pairs of ends, so frames travel client -> node -> subscribers -> client handlers end to end); a hostile relay writes forged, replayed, stale, future-dated, re-targeted or truncated-identity publishes straight into client streams; the clock jumps by 1 s / 25 s / 6 min. "
                "Reference model (from the property text) stepped at the same points: a subscribe is registered iff the stream has a handshake identity, the space id is well formed and served, every pattern is well formed and the account is a member at that moment; a publish is fanned out iff well formed, the node serves the space, and either it is relayed by a responsible node or its identity equals the stream's handshake identity, that account is a member and owns the acc/ topic; "
                "recipients = streams in the pool whose routing tags include a registered pattern matching the topic segment by segment (own matcher). Oracles: every publish copy written to a stream must be expected and at most once; after faults stop every expected copy on a healthy stream was written; forwards to other nodes: exactly one relayed-marked copy per accepted client publish and node, none for relayed or refused ones; "
                "after every scheduler grant the engine's per-stream interest records, trie refcounts and Len, and the pool's tags equal the model (three views agree, no empty leftovers); client handlers are called exactly for (active subscription x message) pairs that pass identity, membership, ownership, freshness, signature and first-delivery checks - compared after every received frame and API call; client API verdicts; "
                "after teardown in a seeded order (unsubscribe or CloseSpace per client and space, then every stream ends) node and clients hold no tries, records, tags, streams or counters. evaluations = node state comparisons.",
        "assumptions": COMMON_ASSUMPTIONS + ["interleavings at the granularity of harness blocking points and the verif yield points; regions between two points are atomic (no lock is held at a yield)",
                                             "pattern caps are configured out of reach; the publish budget is in reach in 20% of runs only; dedup ring larger than the run (ring eviction, which by design re-admits old ids inside the skew window, is not exercised)",
                                             "payload encryption (Deps.Crypto) is not wired: keyless spaces", "each dial pool has one worker (two anonymous workers reaching the same yield point at once cannot be told apart deterministically; the pool's own concurrency is C19's subject); engines start 7 ms apart so their periodic timers never fire at the same fake instant", "account keys are derived from the seeded byte stream (Go's key generation deliberately defeats seeding)", "a subscribe frame is either all valid or carries one invalid pattern (the statement does not say what a mixed frame registers)"],
        "technique": "deterministic simulation: seeded task scheduler over real relay and client pubsub engines with harness-owned streams, membership, clock, faults (remote close, write errors, evictions, hostile relay); reference model stepped at the scheduling points, delivery/forward/handler-call oracles and three-view state agreement after every grant, leak check after teardown",
        "level_text": "Seeded exploration of interleavings x histories x topic/pattern inputs over the real engines; a reference model from the property text decides every delivery, forward and handler call, and the engine's bookkeeping is compared with it after every scheduler grant.",
        "level_note": "pubsub engine, trie, dedup, signatures, stream pool and mb queues real; streams, peers, membership, relay topology are harness stubs; scheduler granularity = yield points",
        "expected_probes": [],
    },
    "C19": {
        "engine": "tasksim",
        "level": "exploration",
        "budget": {"quick": 40, "thorough": 600},
        "race_leg": True,
        "rule": "[buffer bound also taken from outside: for every written copy, the copies accepted before that write and written after it number at most the queue size; when Broadcast reports an error every stream that carried a tag before and after the call must still have been offered its copy] one run = a standalone stream pool (dial workers 1-3, dial queue 1-4) with 2-4 caller tasks x 2-7 calls out of Send (async, through the dial pool and OpenStream), SendById, Broadcast by tags, AddStream, RemoveTagsById, over 2-4 peers and 1-3 tags; streams have queue sizes 1-5 and are healthy, fail at the k-th write, or block forever in MsgSend; "
                "remotes send 0-2 messages that add/remove tags through the stream context and may close; OpenStream and the peer getter may fail. The seeded scheduler orders every pass through MsgSend, MsgRecv, OpenStream, the peer getter, and the 7 yield points inside the pool (before each lock acquisition and in streamClose). "
                "Oracles after every grant: no caller is blocked inside a pool call (each call finishes within its own grants even with a blocked stream present); per stream the copies reaching MsgSend carry strictly increasing acceptance numbers (written in the order accepted, never twice), are addressed to that stream's peer and are copies; "
                "queue length <= configured size; indexes consistent (no dead or duplicate stream ids under peers/tags, tags <-> tag index agree); no log.Fatal. After faults stop every healthy stream drains completely although blocked streams stay stuck; after all remotes close the pool's streams/byPeer/byTag are empty.",
        "assumptions": COMMON_ASSUMPTIONS + ["interleavings at the granularity of harness blocking points and the verif yield points; data races between yields are left to the -race leg",
                                             "acceptance order is observed through the per-stream copies the pool makes (Copy is stamped with a global counter)"],
        "technique": "deterministic simulation: seeded task scheduler over the real stream pool goroutines (synctest bubble, yield hooks), fake streams with write failures / permanently blocked writes / remote closes; non-blocking, FIFO, bounded-queue, index-consistency and drain oracles",
        "level_text": "Seeded exploration of interleavings of callers, write loops, read loops, dial workers and stream opening in the real pool, with stuck, failing and closing peers; oracles after every scheduler grant and after faults stop.",
        "level_note": "streampool and mb queues real; streams, peers, handler are harness stubs; scheduler granularity = yield points",
        "expected_probes": [],
    },
    "C15": {
        "engine": "delsim",
        "level": "exploration",
        "budget": {"quick": 60, "thorough": 900},
        "rule": "one run = 2-3 nodes of one space (own any-store, own writer account), 15-70 events: create an object or a child bound (derived root with ParentId) to an existing object on any node, edit, DeleteObject through the settings object on any node (deletion records plain or snapshot at a seeded 0/20/50% rate), "
                "head updates of settings and object trees delivered in any order / dropped / duplicated (unknown trees are fetched from the sender through the real remote getter), one step of a node's delete worker (it blocks before every object until the scheduler releases it), the worker's 20 s tick on the fake clock, "
                "restart of a node from its store (also while the worker is between 'queued' and 'deleted' or between two objects of a pass), a deletion recorded locally in the deletion state without the settings log, storage calls of one node failing during delete-worker steps (30% of runs), the delete worker stepped in the middle of head sync's start-up on a restart (at the storage write that ends the index fill), and resurrection attempts for ids whose deletion the node has recorded: PutSyncTree of the original root, fetch from a peer that still stores the tree, late head updates. "
                "Oracles after every event on the touched node: the deleted-status of every object is monotone (also across restarts); the deletion state never forgets an id; a tombstoned id is not in the head index (DiffManager.AllIds); after status Deleted no change rows remain; put fails with ErrTreeStorageAlreadyDeleted and fetch fails; "
                "a stored child of a parent whose deletion was carried out is at least queued; every 5 events and at the end: the node's deletion state covers the set derived from scratch from its settings log (BuildHistoryTree + StateBuilder.Build), and nodes with equal settings logs derive equal sets. "
                "a head update for a tombstoned id that is not stored must not bring rows or an open tree back; a child whose storage is created after its parent's deletion was recorded is queued at once. "
                "After heal (all up, everything delivered, settings synced pairwise, workers run to completion) every deletion recorded in the log is carried out; after one more restart of every node and a complete worker run nothing is left merely queued. evaluations = node checks. "
                "The worker's 20 s tick is only fired while every worker is idle, and the order in which a pass visits the queued ids (map order in the code, made a seeded permutation by the verif hook) is a function of a per-step salt: a cancelled worker with a pending notification starts or skips one more abandoned pass by Go's random select, which must not consume choices.",
        "assumptions": COMMON_ASSUMPTIONS + ["a locally stored tree whose deletion is queued but not yet carried out can still be opened locally (the delete worker itself needs that); 'fetching fails' is asserted for ids not stored locally",
                                             "the tree manager is the harness's; MarkTreeDeleted is a no-op as in the node implementations"],
        "technique": "deterministic simulation: seeded interleaving of creations, child creations, deletion records, head-update delivery orders with loss/duplication, delete-worker steps, fake-clock ticks, restarts and resurrection attempts over real nodes; monotone-tombstone, not-advertised, refusal and derived-set oracles after every event, completion after heal",
        "level_text": "Seeded exploration of histories x schedules x restart points over the real deletion stack; oracles written from the property text are evaluated after every event and after a heal phase.",
        "level_note": "deletion state/manager, settings object, sync trees, head index and storage are real; tree manager and transport are harness stubs",
        "expected_probes": [],
    },
    "C20": {
        "engine": "appsim",
        "level": "fault_enumeration",
        "budget": {"quick": 20, "thorough": 300},
        "rule": "[failing components return their own error or one that wraps context.Canceled / DeadlineExceeded; in 40% of containers some components are registered late, after the container was asked for names, and those early lookups are checked against the resolution at that moment] one evaluation = one leg: a seeded container configuration (1-3 nested containers, 1-8 plain/runnable components each, "
                "shadowed names, lookups from Init) executed with one injected failure point (none / Init of i / Run of i / Close error of i / all Close errors); "
                "all legs of a configuration are enumerated. A run is one configuration; it is non-trivial when it has >2 legs; "
                "distinct = distinct (shape, leg sequence) hashes.",
        "assumptions": COMMON_ASSUMPTIONS + ["single failure point per leg; components do not panic"],
        "technique": "deterministic simulation: seeded component configurations, every single injected component failure enumerated, call-log oracle against a reference model",
        "level_text": "For each seeded container configuration every single failure point (Init/Run of each component, Close errors) is enumerated and the "
                      "recorded call log is compared with a reference model written from the property text; configurations are sampled, failure points per configuration are complete.",
        "level_note": "sequential property (no schedule dimension, stated in DESIGN.md); harness components are the only stubs; app.App is the real code",
        "expected_probes": ["lookup-resolved-in-parent"],
    },
}
