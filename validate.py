#!/opt/veriftools/pyvenv/bin/python
import json, jsonschema, sys, glob
jsonschema.validate(json.load(open('/verif/MANIFEST.json')), json.load(open('/root/.vp/MANIFEST.schema.json')))
man = json.load(open('/verif/MANIFEST.json'))
for c in man['checks']:
    jsonschema.validate(json.load(open(c['evidence_file'])), json.load(open('/root/.vp/EVIDENCE.schema.json')))
ids = {c['property_id'] for c in man['checks']} | {n['property_id'] for n in man.get('not_applicable', [])}
assert ids == {"C%02d" % i for i in range(1, 21)}, ids
print('manifest+evidence valid:', len(man['checks']), 'checks')
