module verif

go 1.25.7

require (
	github.com/anyproto/any-store v0.4.7
	github.com/anyproto/any-sync v0.0.0
	github.com/cespare/xxhash v1.1.0
	github.com/cheggaaa/mb/v3 v3.0.3
	github.com/ipfs/go-cid v0.6.2
	github.com/multiformats/go-multibase v0.3.0
	go.uber.org/zap v1.28.0
	golang.org/x/time v0.15.0
	google.golang.org/protobuf v1.36.11
	storj.io/drpc v1.0.0
)

require (
	filippo.io/edwards25519 v1.2.0 // indirect
	github.com/anyproto/go-bip39 v1.0.0 // indirect
	github.com/anyproto/go-chash v0.1.0 // indirect
	github.com/anyproto/go-slip10 v1.0.1 // indirect
	github.com/anyproto/go-slip21 v1.0.0 // indirect
	github.com/anyproto/go-sqlite v1.4.2-any // indirect
	github.com/anyproto/lexid v0.0.6 // indirect
	github.com/beorn7/perks v1.0.1 // indirect
	github.com/cespare/xxhash/v2 v2.3.0 // indirect
	github.com/davecgh/go-spew v1.1.1 // indirect
	github.com/davidlazar/go-crypto v0.0.0-20200604182044-b73af7476f6c // indirect
	github.com/decred/dcrd/dcrec/secp256k1/v4 v4.4.1 // indirect
	github.com/disintegration/imaging v1.6.2 // indirect
	github.com/dustin/go-humanize v1.0.1 // indirect
	github.com/flopp/go-findfont v0.1.0 // indirect
	github.com/fogleman/gg v1.3.0 // indirect
	github.com/gobwas/glob v0.2.3 // indirect
	github.com/goccy/go-graphviz v0.2.10 // indirect
	github.com/golang/freetype v0.0.0-20170609003504-e2365dfdc4a0 // indirect
	github.com/golang/snappy v1.0.0 // indirect
	github.com/google/uuid v1.6.0 // indirect
	github.com/huandu/skiplist v1.2.1 // indirect
	github.com/jbenet/go-temp-err-catcher v0.1.0 // indirect
	github.com/klauspost/cpuid/v2 v2.4.0 // indirect
	github.com/libp2p/go-buffer-pool v0.1.0 // indirect
	github.com/libp2p/go-libp2p v0.49.0 // indirect
	github.com/mr-tron/base58 v1.3.0 // indirect
	github.com/multiformats/go-base32 v0.1.0 // indirect
	github.com/multiformats/go-base36 v0.2.0 // indirect
	github.com/multiformats/go-multiaddr v0.16.1 // indirect
	github.com/multiformats/go-multicodec v0.10.0 // indirect
	github.com/multiformats/go-multihash v0.2.3 // indirect
	github.com/multiformats/go-multistream v0.6.1 // indirect
	github.com/multiformats/go-varint v0.1.0 // indirect
	github.com/munnerz/goautoneg v0.0.0-20191010083416-a7dc8b61c822 // indirect
	github.com/planetscale/vtprotobuf v0.6.0 // indirect
	github.com/pmezard/go-difflib v1.0.0 // indirect
	github.com/prometheus/client_golang v1.24.1 // indirect
	github.com/prometheus/client_model v0.6.2 // indirect
	github.com/prometheus/common v0.70.1 // indirect
	github.com/prometheus/procfs v0.21.1 // indirect
	github.com/remyoudompheng/bigfft v0.0.0-20230129092748-24d4a6f8daec // indirect
	github.com/spaolacci/murmur3 v1.1.0 // indirect
	github.com/stretchr/testify v1.11.1 // indirect
	github.com/tetratelabs/wazero v1.10.1 // indirect
	github.com/valyala/fastjson v1.6.10 // indirect
	github.com/zeebo/blake3 v0.2.4 // indirect
	github.com/zeebo/errs v1.3.0 // indirect
	go.uber.org/multierr v1.11.0 // indirect
	golang.org/x/crypto v0.54.0 // indirect
	golang.org/x/exp v0.0.0-20260718201538-764159d718ef // indirect
	golang.org/x/image v0.21.0 // indirect
	golang.org/x/net v0.57.0 // indirect
	golang.org/x/sys v0.47.0 // indirect
	golang.org/x/text v0.40.0 // indirect
	golang.org/x/tools v0.48.0 // indirect
	gopkg.in/yaml.v3 v3.0.1 // indirect
	lukechampine.com/blake3 v1.4.1 // indirect
	modernc.org/libc v1.66.8 // indirect
	modernc.org/mathutil v1.7.1 // indirect
	modernc.org/memory v1.11.0 // indirect
	modernc.org/sqlite v1.37.1 // indirect
)

replace github.com/anyproto/any-sync => /repo
