#!/usr/bin/env python3
"""Regenerates MANIFEST.json from props.py (claimed checks) and the not-applicable table below."""
import json, os, subprocess, sys
sys.path.insert(0, os.path.dirname(os.path.abspath(__file__)))
from props import PROPS, ENGINES

ALL = ["C%02d" % i for i in range(1, 21)]

NOT_APPLICABLE = {
    "C13": "pure function of payload bytes and two key pairs: no schedule, clock, fault, state or interleaving to simulate; "
           "the fitting tools (byte/field mutation enumeration, property-based tests) are a different technique (DESIGN.md section 7)",
    "C18": "responsible-node selection is a pure function of (configuration, space id, own id); agreement is equality of a function "
           "across callers with no interaction, time or fault dimension (DESIGN.md section 7)",
}
PENDING = "check not built yet in this framework (work in progress; will be claimed once its engine passes the determinism self-test)"

BASELINE_OFF = ("cd /repo && GOFLAGS=-mod=mod GOPROXY=off go test -json -vet=off -count=1 -timeout 25m ./...")


def hook_commits():
    p = os.path.join(os.path.dirname(os.path.abspath(__file__)), "hooks_commits.txt")
    if os.path.exists(p):
        return [l.split()[0] for l in open(p) if l.strip() and not l.startswith("#")]
    return []


def main():
    checks = []
    for pid in ALL:
        if pid not in PROPS:
            continue
        info = PROPS[pid]
        c = {
            "property_id": pid,
            "quick_cmd": "./check run %s --tier quick" % pid,
            "thorough_cmd": "./check run %s --tier thorough" % pid,
            "evidence_file": "/verif/evidence/%s.json" % pid,
            "replay_cmd_template": "./check replay {path}",
            "engine": info["engine"],
            "level_claimed": {"category": info["level"], "text": info["level_text"], "design_ref": info.get("design_ref", "DESIGN.md section 6/" + pid)},
            "level_note": info["level_note"],
            "technique": info["technique"],
        }
        checks.append(c)
    na = []
    for pid in ALL:
        if pid in PROPS:
            continue
        na.append({"property_id": pid, "reason": NOT_APPLICABLE.get(pid, PENDING)})
    man = {
        "version": 1,
        "setup_cmd": "./check setup",
        "hooks": {
            "guard": "verif",
            "enable": "go build tag: checks build /repo with `go test -c -tags verif` (files util/simhook/*_on.go, */verif_*.go); "
                      "without the tag simhook.Yield/Hit are empty inlined functions",
            "baseline_off_cmd": BASELINE_OFF,
            "source_commits": hook_commits(),
            "add_only": True,
        },
        "engines": [{"name": n, "path": "/verif/sim/" + n, "serves_properties": e["serves"], "kind_free_text": e["kind"]} for n, e in sorted(ENGINES.items())],
        "checks": checks,
        "notes": "Deterministic simulation with fault injection; one seed = one execution (choice trace), seeded search over schedules and faults, "
                 "ddmin-minimised replay files under /verif/replays, known findings in /verif/known_findings.json. See DESIGN.md.",
        "not_applicable": na,
    }
    with open(os.path.join(os.path.dirname(os.path.abspath(__file__)), "MANIFEST.json"), "w") as f:
        json.dump(man, f, indent=1)
    print("MANIFEST.json: %d checks, %d not applicable/pending" % (len(checks), len(na)))


if __name__ == "__main__":
    main()
