package byzsim

import (
	"context"
	"errors"
	"fmt"
	"os"
	"path/filepath"

	anystore "github.com/anyproto/any-store"
	"google.golang.org/protobuf/proto"

	"github.com/anyproto/any-sync/commonspace/object/acl/list"
	"github.com/anyproto/any-sync/commonspace/object/acl/recordverifier"
	"github.com/anyproto/any-sync/commonspace/object/tree/objecttree"
	"github.com/anyproto/any-sync/commonspace/object/tree/synctree"
	"github.com/anyproto/any-sync/commonspace/object/tree/synctree/response"
	"github.com/anyproto/any-sync/commonspace/object/tree/treechangeproto"
	"github.com/anyproto/any-sync/commonspace/object/tree/treestorage"
	"github.com/anyproto/any-sync/commonspace/spacestorage"
	"github.com/anyproto/any-sync/commonspace/spacesyncproto"
	"github.com/anyproto/any-sync/commonspace/sync/objectsync/objectmessages"
	"github.com/anyproto/any-sync/commonspace/sync/syncdeps"
	"github.com/anyproto/any-sync/commonspace/syncstatus"
	"github.com/anyproto/any-sync/net/peer"
	"github.com/anyproto/any-sync/util/cidutil"

	"verif/sim/simlib"
)

type bnode struct {
	w      *world
	name   string
	acc    *simlib.Account
	db     anystore.DB
	ss     spacestorage.SpaceStorage
	acl    list.AclList
	tree   synctree.SyncTree
	client *bclient
}

type bclient struct {
	synctree.RequestFactory
	n    *bnode
	hus  [][]byte // head updates broadcast (ObjectSyncMessage bytes)
	reqs []syncdeps.Request
	// answers to the next tree fetch
	fetchAnswers [][]byte
}

func (c *bclient) Broadcast(ctx context.Context, hu *objectmessages.HeadUpdate) error {
	cp := hu.Copy().(*objectmessages.HeadUpdate)
	cp.SetPeerId("victim")
	pm, err := cp.ProtoMessage()
	if err != nil {
		return err
	}
	b, err := pm.(*spacesyncproto.ObjectSyncMessage).MarshalVT()
	if err != nil {
		return err
	}
	c.hus = append(c.hus, b)
	return nil
}

func (c *bclient) QueueRequest(ctx context.Context, req syncdeps.Request) error {
	c.reqs = append(c.reqs, req)
	return nil
}

// SendTreeRequest (used when the victim fetches a tree it does not hold): the answers prepared by the
// step, possibly hostile, are handed to the collector.
func (c *bclient) SendTreeRequest(ctx context.Context, req syncdeps.Request, collector syncdeps.ResponseCollector) error {
	if c.fetchAnswers == nil {
		return errors.New("no peers in this simulation")
	}
	for _, b := range c.fetchAnswers {
		m := &spacesyncproto.ObjectSyncMessage{}
		if err := m.UnmarshalVT(b); err != nil {
			return err
		}
		resp := collector.NewResponse()
		if err := resp.(*response.Response).SetProtoMessage(m); err != nil {
			return err
		}
		if err := collector.CollectResponse(ctx, "peer", req.ObjectId(), resp); err != nil {
			return err
		}
	}
	return nil
}

func (n *bnode) GetResponsiblePeers(ctx context.Context) ([]peer.Peer, error) {
	return nil, errors.New("no responsible peers")
}

type noQueue struct{}

func (noQueue) UpdateQueueSize(uint64, int, bool) {}

func (w *world) newNode(name string, acc *simlib.Account) *bnode {
	n := &bnode{w: w, name: name, acc: acc}
	n.db = simlib.OpenStore(filepath.Join(w.sub(name), "store.db"))
	var err error
	n.ss, err = spacestorage.Create(ctxb, n.db, w.space.Payload)
	must(err)
	st, err := n.ss.AclStorage()
	must(err)
	n.acl, err = list.BuildAclListWithIdentity(acc.Keys, st, recordverifier.NewValidateFull())
	must(err)
	for _, rec := range w.space.Records {
		must(n.acl.AddRawRecord(rec))
	}
	n.client = &bclient{RequestFactory: synctree.NewRequestFactory(w.space.Id), n: n}
	return n
}

func (n *bnode) deps() synctree.BuildDeps {
	return synctree.BuildDeps{SpaceId: n.w.space.Id, SyncClient: n.client, AclList: n.acl, SpaceStorage: n.ss,
		OnClose: func(string) {}, SyncStatus: syncstatus.NewNoOpSyncStatus(), PeerGetter: n, BuildObjectTree: objecttree.BuildObjectTree}
}

type treeTarget struct {
	w            *world
	victim, peer *bnode
	root         *treechangeproto.RawTreeChangeWithId
	encrypted    bool
	known        []string // every change id produced so far (honest), oldest first
	raws         map[string]*treechangeproto.RawTreeChangeWithId
	pendingHU    [][]byte // honest head updates of the peer not yet delivered to the victim
	n            int
	crafted      []string // ids of hostile changes built so far
}

func (w *world) treeTarget() *treeTarget {
	if w.tt != nil {
		return w.tt
	}
	t := &treeTarget{w: w, raws: map[string]*treechangeproto.RawTreeChangeWithId{}}
	t.victim, t.peer = w.newNode("victim", w.wr), w.newNode("peer", w.owner)
	t.encrypted = w.s.Flip("encrypted-tree", 0.5)
	seed := make([]byte, 32)
	_, _ = w.r.Crypto.Read(seed)
	var err error
	t.root, err = objecttree.CreateObjectTreeRoot(objecttree.ObjectTreeCreatePayload{PrivKey: w.owner.Keys.SignKey, ChangeType: "sim.byz", ChangePayload: []byte("root"),
		SpaceId: w.space.Id, Seed: seed, Timestamp: 946684800, IsEncrypted: t.encrypted}, t.peer.acl)
	must(err)
	for _, n := range []*bnode{t.victim, t.peer} {
		n.tree, err = synctree.PutSyncTree(ctxb, treestorage.TreeStorageCreatePayload{RootRawChange: t.root, Changes: []*treechangeproto.RawTreeChangeWithId{t.root}, Heads: []string{t.root.Id}}, n.deps())
		must(err)
	}
	t.known = []string{t.root.Id}
	t.raws[t.root.Id] = t.root
	w.tt = t
	for i := 0; i < 2+w.s.Choose("initial-history", 6); i++ {
		t.advance()
		t.deliverHonest()
	}
	return t
}

func (t *treeTarget) close() {
	_ = t.victim.tree.Close()
	_ = t.peer.tree.Close()
	_ = t.victim.db.Close()
	_ = t.peer.db.Close()
}

// advance: the honest peer edits the tree (its head update is captured).
func (t *treeTarget) advance() {
	s := t.w.s
	k := 1 + s.Choose("peer-edits", 3)
	for i := 0; i < k; i++ {
		t.n++
		tr := t.peer.tree
		tr.Lock()
		res, err := tr.AddContent(ctxb, objecttree.SignableChangeContent{Data: []byte(fmt.Sprintf("edit-%d", t.n)), Key: t.peer.acc.Keys.SignKey,
			IsSnapshot: s.Flip("snapshot", 0.25), ShouldBeEncrypted: t.encrypted, Timestamp: int64(946684900 + t.n)})
		tr.Unlock()
		must(err)
		for _, ch := range res.Added {
			t.known = append(t.known, ch.Id)
			t.raws[ch.Id] = &treechangeproto.RawTreeChangeWithId{RawChange: ch.RawChange, Id: ch.Id}
		}
	}
	t.pendingHU = append(t.pendingHU, t.peer.client.hus...)
	t.peer.client.hus = nil
}

// deliverHonest hands the victim the peer's unmodified head updates and serves the requests it makes.
func (t *treeTarget) deliverHonest() {
	ctx := peer.CtxWithPeerId(ctxb, "peer")
	for _, b := range t.pendingHU {
		msg := &spacesyncproto.ObjectSyncMessage{}
		must(msg.UnmarshalVT(b))
		hu := &objectmessages.HeadUpdate{}
		must(hu.SetProtoMessage(msg))
		hu.SetPeerId("peer")
		req, err := t.victim.tree.HandleHeadUpdate(ctx, syncstatus.NewNoOpSyncStatus(), hu)
		if err == nil && req != nil {
			t.serve(req)
		}
	}
	t.pendingHU = nil
	for _, req := range t.victim.client.reqs {
		t.serve(req)
	}
	t.victim.client.reqs = nil
	t.w.r.Probe("honest-progress:tree")
}

// responses: the peer's answer to a request of the victim, as ObjectSyncMessage bytes.
func (t *treeTarget) responses(req syncdeps.Request) [][]byte {
	pm, err := req.Proto()
	if err != nil {
		return nil
	}
	b, err := pm.(*spacesyncproto.ObjectSyncMessage).MarshalVT()
	must(err)
	msg := &spacesyncproto.ObjectSyncMessage{}
	must(msg.UnmarshalVT(b))
	rq := objectmessages.NewByteRequest("victim", msg.SpaceId, msg.ObjectId, msg.Payload)
	var out [][]byte
	_, _ = t.peer.tree.HandleStreamRequest(peer.CtxWithPeerId(ctxb, "victim"), rq, noQueue{}, func(resp proto.Message) error {
		bb, e := resp.(*spacesyncproto.ObjectSyncMessage).MarshalVT()
		out = append(out, bb)
		return e
	})
	return out
}

func (t *treeTarget) serve(req syncdeps.Request) {
	for _, bb := range t.responses(req) {
		m := &spacesyncproto.ObjectSyncMessage{}
		must(m.UnmarshalVT(bb))
		resp := &response.Response{}
		if err := resp.SetProtoMessage(m); err != nil {
			continue
		}
		_ = t.victim.tree.HandleResponse(peer.CtxWithPeerId(ctxb, "peer"), "peer", m.ObjectId, resp)
	}
}

// ---- hostile construction ------------------------------------------------------------------------------------

func (t *treeTarget) anyId(label string) string {
	s := t.w.s
	switch s.Weighted(label+"-kind", []int{8, 1, 1, 3 * minInt(len(t.crafted), 1)}) {
	case 3: // a hostile change made earlier (possibly part of the same batch, possibly never attached)
		return t.crafted[len(t.crafted)-1-s.Choose(label+"-crafted", minInt(len(t.crafted), 4))]
	case 1:
		id, _ := cidutil.NewCidFromBytes([]byte(fmt.Sprintf("no-such-change-%d", s.Choose("n", 50))))
		return id
	case 2:
		return []string{"", "x", t.w.space.Id}[s.Choose(label+"-odd", 3)]
	}
	return t.known[s.Choose(label, len(t.known))]
}

func (t *treeTarget) sign(tc []byte, signer *simlib.Account) *treechangeproto.RawTreeChangeWithId {
	sig, err := signer.Keys.SignKey.Sign(tc)
	must(err)
	rawb, err := (&treechangeproto.RawTreeChange{Payload: tc, Signature: sig}).MarshalVT()
	must(err)
	id, err := cidutil.NewCidFromBytes(rawb)
	must(err)
	return &treechangeproto.RawTreeChangeWithId{RawChange: rawb, Id: id}
}

// hostileChange derives a hostile change from an honest one.
func (t *treeTarget) hostileChange(orig *treechangeproto.RawTreeChangeWithId) (*treechangeproto.RawTreeChangeWithId, string) {
	s := t.w.s
	raw := &treechangeproto.RawTreeChange{}
	if err := raw.UnmarshalVT(orig.RawChange); err != nil {
		return orig, "honest"
	}
	donor := t.raws[t.known[s.Choose("donor", len(t.known))]].RawChange
	signer := []*simlib.Account{t.w.owner, t.w.wr, t.w.rd}[s.Weighted("signer", []int{5, 4, 1})]
	switch s.Weighted("change-mutation", []int{3, 5, 6, 1}) {
	case 0: // the envelope, as is (signature no longer matches what it signs)
		b, what := mutateWire(s, orig.RawChange, donor)
		id := orig.Id
		if s.Flip("fresh-id", 0.5) {
			id, _ = cidutil.NewCidFromBytes(b)
		}
		return &treechangeproto.RawTreeChangeWithId{RawChange: b, Id: id}, "envelope: " + what
	case 1: // the signed content, mutated on the wire and signed again by a key holder
		draw := &treechangeproto.RawTreeChange{}
		_ = draw.UnmarshalVT(donor)
		b, what := mutateWire(s, raw.Payload, draw.Payload)
		return t.sign(b, signer), "content re-signed by " + signer.Name + ": " + what
	case 2: // references edited, signed again
		tc := &treechangeproto.TreeChange{}
		if err := tc.UnmarshalVT(raw.Payload); err != nil {
			return orig, "honest"
		}
		what := ""
		switch s.Choose("ref-mutation", 7) {
		case 0:
			n := s.Choose("nparents", 4)
			tc.TreeHeadIds = nil
			for i := 0; i < n; i++ {
				tc.TreeHeadIds = append(tc.TreeHeadIds, t.anyId("parent"))
			}
			what = fmt.Sprintf("%d arbitrary parents", n)
		case 1:
			tc.TreeHeadIds = append(tc.TreeHeadIds, tc.TreeHeadIds...)
			what = "parents duplicated"
		case 2:
			tc.SnapshotBaseId = t.anyId("snapshot-base")
			what = "snapshot base re-pointed"
		case 3:
			tc.IsSnapshot = !tc.IsSnapshot
			what = "snapshot flag flipped"
		case 4:
			tc.AclHeadId = []string{"", "no-such-record", t.w.space.Records[0].Id, t.root.Id}[s.Choose("aclhead", 4)]
			what = "cited ACL record replaced"
		case 5:
			tc.ReadKeyId = []string{"", "no-such-key", t.root.Id}[s.Choose("readkey", 3)]
			tc.ChangesData = tc.ChangesData[:s.Choose("data-len", len(tc.ChangesData)+1)]
			what = "read key id replaced, data shortened"
		case 6:
			tc.TreeHeadIds = []string{t.known[0]}
			tc.SnapshotBaseId = t.known[0]
			what = "attached to the root although snapshots followed"
		}
		b, err := tc.MarshalVT()
		must(err)
		return t.sign(b, signer), "references re-signed by " + signer.Name + ": " + what
	default:
		return orig, "honest"
	}
}

func (w *world) stepTree() {
	t := w.treeTarget()
	s := w.s
	if s.Flip("tree-honest-progress", 0.3) {
		// (under the hang watch: a lock left behind by an earlier hostile delivery shows here)
		t.advance()
		if s.Flip("deliver-honest-now", 0.5) {
			t.deliverHonest()
		}
		return
	}
	// material: the newest honest changes (known to the peer, possibly not to the victim yet)
	k := 1 + s.Choose("batch", 3)
	var batch []*treechangeproto.RawTreeChangeWithId
	var whats []string
	size := 0
	for i := 0; i < k; i++ {
		from := len(t.known) - 1 - s.Choose("recent", minInt(len(t.known), 6))
		orig := t.raws[t.known[from]]
		ch, what := t.hostileChange(orig)
		if what != "honest" {
			t.crafted = append(t.crafted, ch.Id)
		}
		batch = append(batch, ch)
		whats = append(whats, what)
		size += len(ch.RawChange) + len(ch.Id)
	}
	// a chain inside one batch: the first change cannot be attached (its parent never arrives), a later one
	// leans on it as parent and / or as snapshot base
	if s.Flip("dangling-chain", 0.15) {
		mk := func(from *treechangeproto.RawTreeChangeWithId, edit func(tc *treechangeproto.TreeChange)) *treechangeproto.RawTreeChangeWithId {
			raw := &treechangeproto.RawTreeChange{}
			must(raw.UnmarshalVT(from.RawChange))
			tc := &treechangeproto.TreeChange{}
			must(tc.UnmarshalVT(raw.Payload))
			edit(tc)
			b, err := tc.MarshalVT()
			must(err)
			return t.sign(b, t.w.owner)
		}
		honest := t.raws[t.known[len(t.known)-1]]
		if honest.Id != t.root.Id {
			ghost, _ := cidutil.NewCidFromBytes([]byte(fmt.Sprintf("never-delivered-%d", s.Choose("ghost", 50))))
			first := mk(honest, func(tc *treechangeproto.TreeChange) {
				tc.TreeHeadIds = []string{ghost}
				tc.IsSnapshot = s.Flip("first-is-snapshot", 0.6)
			})
			kind := s.Choose("lean", 3)
			second := mk(honest, func(tc *treechangeproto.TreeChange) {
				if kind != 1 {
					tc.SnapshotBaseId = first.Id
				}
				if kind != 0 {
					tc.TreeHeadIds = []string{first.Id}
				} else {
					tc.TreeHeadIds = []string{t.known[s.Choose("attached-parent", len(t.known))]}
				}
			})
			batch = []*treechangeproto.RawTreeChangeWithId{first, second}
			if s.Flip("chain-reversed", 0.3) {
				batch = []*treechangeproto.RawTreeChangeWithId{second, first}
			}
			whats = []string{fmt.Sprintf("unattachable change (snapshot flag per seed) + a change leaning on it (kind %d)", kind)}
			size = len(first.RawChange) + len(second.RawChange)
			t.crafted = append(t.crafted, first.Id, second.Id)
		}
	}
	what := fmt.Sprint(whats)
	ctx := peer.CtxWithPeerId(ctxb, "peer")
	switch s.Weighted("tree-entry", []int{5, 5, 3, 3, 2, 3}) {
	case 0:
		heads := []string{batch[len(batch)-1].Id}
		if s.Flip("odd-heads", 0.3) {
			heads = []string{t.anyId("head"), t.anyId("head")}
		}
		var path []string
		if s.Flip("snapshot-path", 0.4) {
			for i := 0; i < s.Choose("path-len", 4); i++ {
				path = append(path, t.anyId("path"))
			}
		}
		w.guard("objecttree.AddRawChanges", what, size, func() error {
			t.victim.tree.Lock()
			defer t.victim.tree.Unlock()
			_, err := t.victim.tree.AddRawChanges(ctxb, objecttree.RawChangesPayload{NewHeads: heads, RawChanges: batch, SnapshotPath: path})
			return err
		})
	case 1: // a head update carrying the hostile changes, or a wire-mutated honest head update
		var b []byte
		if len(t.pendingHU) > 0 && s.Flip("mutate-honest-hu", 0.5) {
			hb := t.pendingHU[s.Choose("which-hu", len(t.pendingHU))]
			b, what = w.mutateSyncMessage(hb)
		} else {
			b = t.syncMessage(&treechangeproto.TreeSyncContentValue{Value: &treechangeproto.TreeSyncContentValue_HeadUpdate{HeadUpdate: &treechangeproto.TreeHeadUpdate{
				Heads: []string{batch[len(batch)-1].Id}, Changes: batch, SnapshotPath: t.somePath()}}})
		}
		msg := &spacesyncproto.ObjectSyncMessage{}
		if err := msg.UnmarshalVT(b); err != nil {
			w.r.Probe("undecodable-before-entry")
			return
		}
		hu := &objectmessages.HeadUpdate{}
		w.guard("synctree.HandleHeadUpdate", what, len(b), func() error {
			if err := hu.SetProtoMessage(msg); err != nil {
				return err
			}
			hu.SetPeerId("peer")
			_, err := t.victim.tree.HandleHeadUpdate(ctx, syncstatus.NewNoOpSyncStatus(), hu)
			return err
		})
		t.victim.client.reqs = nil
	case 2: // a full-sync request of a hostile peer
		req, err := t.peer.client.CreateFullSyncRequest("victim", t.peer.tree)
		if err != nil {
			return
		}
		pm, err := req.Proto()
		must(err)
		hb, err := pm.(*spacesyncproto.ObjectSyncMessage).MarshalVT()
		must(err)
		b, what := w.mutateSyncMessage(hb)
		msg := &spacesyncproto.ObjectSyncMessage{}
		if err := msg.UnmarshalVT(b); err != nil {
			w.r.Probe("undecodable-before-entry")
			return
		}
		w.guard("synctree.HandleStreamRequest", what, len(b), func() error {
			rq := objectmessages.NewByteRequest("peer", msg.SpaceId, msg.ObjectId, msg.Payload)
			n := 0
			_, err := t.victim.tree.HandleStreamRequest(ctx, rq, noQueue{}, func(resp proto.Message) error {
				n++
				if n > 10000 {
					return errors.New("response stream does not end")
				}
				return nil
			})
			return err
		})
	case 3: // a response to a request the victim made
		req, err := t.victim.client.CreateFullSyncRequest("peer", t.victim.tree)
		if err != nil {
			return
		}
		rs := t.responses(req)
		if len(rs) == 0 {
			return
		}
		b, what := w.mutateSyncMessage(rs[s.Choose("which-response", len(rs))])
		if s.Flip("inject-hostile-changes", 0.4) {
			b = t.syncMessage(&treechangeproto.TreeSyncContentValue{Value: &treechangeproto.TreeSyncContentValue_FullSyncResponse{FullSyncResponse: &treechangeproto.TreeFullSyncResponse{
				Heads: []string{batch[len(batch)-1].Id}, Changes: batch, SnapshotPath: t.somePath()}}})
			what = "response with " + fmt.Sprint(whats)
		}
		msg := &spacesyncproto.ObjectSyncMessage{}
		if err := msg.UnmarshalVT(b); err != nil {
			w.r.Probe("undecodable-before-entry")
			return
		}
		w.guard("synctree.HandleResponse", what, len(b), func() error {
			resp := &response.Response{}
			if err := resp.SetProtoMessage(msg); err != nil {
				return err
			}
			return t.victim.tree.HandleResponse(ctx, "peer", msg.ObjectId, resp)
		})
	case 5: // the victim fetches a tree it does not hold from a hostile peer
		t.n++
		seed := make([]byte, 32)
		_, _ = w.r.Crypto.Read(seed)
		root2, err := objecttree.CreateObjectTreeRoot(objecttree.ObjectTreeCreatePayload{PrivKey: w.owner.Keys.SignKey, ChangeType: "sim.byz2", ChangePayload: []byte(fmt.Sprint(t.n)),
			SpaceId: w.space.Id, Seed: seed, Timestamp: 946684800, IsEncrypted: t.encrypted}, t.peer.acl)
		must(err)
		tr2, err := synctree.PutSyncTree(ctxb, treestorage.TreeStorageCreatePayload{RootRawChange: root2, Changes: []*treechangeproto.RawTreeChangeWithId{root2}, Heads: []string{root2.Id}}, t.peer.deps())
		must(err)
		for i := 0; i < 1+s.Choose("tree2-edits", 5); i++ {
			tr2.Lock()
			_, err := tr2.AddContent(ctxb, objecttree.SignableChangeContent{Data: []byte("t2"), Key: t.peer.acc.Keys.SignKey, IsSnapshot: s.Flip("snapshot", 0.25), ShouldBeEncrypted: t.encrypted, Timestamp: int64(946684900 + i)})
			tr2.Unlock()
			must(err)
		}
		t.peer.client.hus = nil
		// the peer's honest answer to a new-tree request
		req := t.victim.client.CreateNewTreeRequest("peer", root2.Id)
		pm, err := req.Proto()
		must(err)
		rb, err := pm.(*spacesyncproto.ObjectSyncMessage).MarshalVT()
		must(err)
		rmsg := &spacesyncproto.ObjectSyncMessage{}
		must(rmsg.UnmarshalVT(rb))
		var answers [][]byte
		_, _ = tr2.HandleStreamRequest(peer.CtxWithPeerId(ctxb, "victim"), objectmessages.NewByteRequest("victim", rmsg.SpaceId, rmsg.ObjectId, rmsg.Payload), noQueue{}, func(resp proto.Message) error {
			bb, e := resp.(*spacesyncproto.ObjectSyncMessage).MarshalVT()
			answers = append(answers, bb)
			return e
		})
		_ = tr2.Close()
		if len(answers) == 0 {
			return
		}
		k := s.Choose("which-answer", len(answers))
		size := 0
		answers[k], what = w.mutateSyncMessage(answers[k])
		if s.Flip("drop-an-answer", 0.2) && len(answers) > 1 {
			answers = append(answers[:k], answers[k+1:]...)
			what += "; one answer dropped"
		}
		for _, a := range answers {
			size += len(a)
		}
		t.victim.client.fetchAnswers = answers
		w.guard("synctree.BuildSyncTreeOrGetRemote", what, size, func() error {
			tr, err := synctree.BuildSyncTreeOrGetRemote(ctx, root2.Id, t.victim.deps())
			if err == nil {
				_ = tr.Close()
			}
			return err
		})
		t.victim.client.fetchAnswers = nil
		t.victim.client.reqs = nil
	case 4: // a whole tree offered for creation
		rootc := t.root
		if s.Flip("hostile-root", 0.4) {
			rb, rwhat := mutateWire(s, t.root.RawChange, batch[0].RawChange)
			id := t.root.Id
			if s.Flip("root-fresh-id", 0.5) {
				id, _ = cidutil.NewCidFromBytes(rb)
			}
			rootc = &treechangeproto.RawTreeChangeWithId{RawChange: rb, Id: id}
			what = "root: " + rwhat + "; " + what
		}
		changes := append([]*treechangeproto.RawTreeChangeWithId{rootc}, batch...)
		// offered to a node that does not hold the tree: an empty store
		t.n++
		vdir := w.sub(fmt.Sprintf("validate-%d", t.n))
		vdb := simlib.OpenStore(filepath.Join(vdir, "store.db"))
		w.guard("objecttree.ValidateRawTree", what, size+len(rootc.RawChange), func() error {
			return objecttree.ValidateRawTree(treestorage.TreeStorageCreatePayload{RootRawChange: rootc, Changes: changes, Heads: []string{batch[len(batch)-1].Id}}, t.victim.acl, vdb)
		})
		_ = vdb.Close()
		_ = os.RemoveAll(vdir)
	}
}

func (t *treeTarget) somePath() []string {
	var p []string
	for i := 0; i < t.w.s.Choose("path-len", 3); i++ {
		p = append(p, t.anyId("path"))
	}
	return p
}

func (t *treeTarget) syncMessage(content *treechangeproto.TreeSyncContentValue) []byte {
	payload, err := (&treechangeproto.TreeSyncMessage{Content: content, RootChange: t.root}).MarshalVT()
	must(err)
	b, err := (&spacesyncproto.ObjectSyncMessage{SpaceId: t.w.space.Id, ObjectId: t.root.Id, Payload: payload}).MarshalVT()
	must(err)
	return b
}

// mutateSyncMessage mutates an ObjectSyncMessage: the envelope, or the tree message inside it.
func (w *world) mutateSyncMessage(b []byte) ([]byte, string) {
	s := w.s
	msg := &spacesyncproto.ObjectSyncMessage{}
	if err := msg.UnmarshalVT(b); err != nil || s.Flip("envelope", 0.2) {
		out, what := mutateWire(s, b, b)
		return out, "sync envelope: " + what
	}
	p, what := mutateWire(s, msg.Payload, msg.Payload)
	msg.Payload = p
	out, err := msg.MarshalVT()
	must(err)
	return out, "tree message: " + what
}
