package byzsim

// Structure-aware mutation of protobuf wire bytes, independent of the message type: the bytes are parsed
// into fields (recursively, where a length-delimited payload itself parses as a message), one mutation is
// applied to the field tree and the tree is serialised again. Mutations: truncation at and inside a field,
// length-prefix edits, field removal / duplication / reordering, varint extremes, empty or short byte
// strings, byte flips in a leaf, wire-type change, splice of a field taken from another message.

import (
	"encoding/binary"

	"verif/sim/core"
)

type wfield struct {
	num   uint64
	wt    int // 0 varint, 1 fixed64, 2 bytes, 5 fixed32
	v     uint64
	b     []byte    // wt 2 leaf, or fixed payload
	sub   []*wfield // wt 2 parsed as message
	isMsg bool
	// lie: serialise the length prefix as this value instead of the true length (-1 = honest)
	lenLie int64
}

func parseWire(b []byte, depth int) ([]*wfield, bool) {
	var out []*wfield
	for len(b) > 0 {
		tag, n := binary.Uvarint(b)
		if n <= 0 {
			return nil, false
		}
		b = b[n:]
		f := &wfield{num: tag >> 3, wt: int(tag & 7), lenLie: -1}
		if f.num == 0 {
			return nil, false
		}
		switch f.wt {
		case 0:
			v, n := binary.Uvarint(b)
			if n <= 0 {
				return nil, false
			}
			f.v = v
			b = b[n:]
		case 1:
			if len(b) < 8 {
				return nil, false
			}
			f.b = append([]byte{}, b[:8]...)
			b = b[8:]
		case 5:
			if len(b) < 4 {
				return nil, false
			}
			f.b = append([]byte{}, b[:4]...)
			b = b[4:]
		case 2:
			l, n := binary.Uvarint(b)
			if n <= 0 || uint64(len(b)-n) < l {
				return nil, false
			}
			payload := b[n : n+int(l)]
			b = b[n+int(l):]
			f.b = append([]byte{}, payload...)
			if depth < 6 && len(payload) >= 2 {
				if sub, ok := parseWire(payload, depth+1); ok && len(sub) > 0 {
					f.sub, f.isMsg = sub, true
				}
			}
		default:
			return nil, false
		}
		out = append(out, f)
	}
	return out, true
}

func serWire(fs []*wfield) []byte {
	var out []byte
	for _, f := range fs {
		out = binary.AppendUvarint(out, f.num<<3|uint64(f.wt))
		switch f.wt {
		case 0:
			out = binary.AppendUvarint(out, f.v)
		case 1, 5:
			out = append(out, f.b...)
		case 2:
			payload := f.b
			if f.isMsg {
				payload = serWire(f.sub)
			}
			l := uint64(len(payload))
			if f.lenLie >= 0 {
				l = uint64(f.lenLie)
			}
			out = binary.AppendUvarint(out, l)
			out = append(out, payload...)
		}
	}
	return out
}

// flatten lists every field of the tree together with the slice that holds it.
type wref struct {
	parent *[]*wfield
	idx    int
}

func flatten(fs *[]*wfield, out *[]wref) {
	for i, f := range *fs {
		*out = append(*out, wref{fs, i})
		if f.isMsg {
			flatten(&f.sub, out)
		}
	}
}

// mutateWire returns a mutated copy of b and a description. donor: bytes of another message of the same
// world (fields are spliced from it).
func mutateWire(s *core.Src, b, donor []byte) ([]byte, string) {
	fs, ok := parseWire(b, 0)
	if !ok || len(fs) == 0 {
		return mutateRaw(s, b)
	}
	if s.Flip("raw-instead", 0.15) {
		return mutateRaw(s, b)
	}
	var refs []wref
	flatten(&fs, &refs)
	r := refs[s.Choose("field", len(refs))]
	f := (*r.parent)[r.idx]
	kinds := []int{0, 1, 2, 3, 4, 5, 6, 7, 8, 9, 10, 11}
	switch k := kinds[s.Choose("wire-mutation", len(kinds))]; k {
	case 0:
		*r.parent = append(append([]*wfield{}, (*r.parent)[:r.idx]...), (*r.parent)[r.idx+1:]...)
		return serWire(fs), "field removed"
	case 1:
		cp := append([]*wfield{}, (*r.parent)[:r.idx+1]...)
		cp = append(cp, f)
		*r.parent = append(cp, (*r.parent)[r.idx+1:]...)
		return serWire(fs), "field duplicated"
	case 2:
		if f.wt == 2 {
			f.isMsg, f.sub = false, nil
			f.b = nil
			return serWire(fs), "byte string emptied"
		}
		f.v = 0
		return serWire(fs), "varint zeroed"
	case 3:
		if f.wt == 2 && len(f.b) > 1 {
			if f.isMsg {
				f.b = serWire(f.sub)
				f.isMsg, f.sub = false, nil
			}
			f.b = f.b[:1+s.Choose("short-len", minInt(len(f.b)-1, 40))]
			return serWire(fs), "byte string shortened"
		}
		f.v = []uint64{1, 1<<31 - 1, 1 << 31, 1<<32 - 1, 1<<63 - 1, 1 << 63, ^uint64(0)}[s.Choose("extreme", 7)]
		return serWire(fs), "varint set to an extreme"
	case 4:
		if f.wt == 2 {
			tl := int64(len(f.b))
			if f.isMsg {
				tl = int64(len(serWire(f.sub)))
			}
			f.lenLie = []int64{tl + 1, tl + 100, maxI64(tl-1, 0), 0, 1 << 20, 1 << 31, 1<<32 - 1, 1<<62 + 5}[s.Choose("len-lie", 8)]
			return serWire(fs), "length prefix edited"
		}
		f.v ^= 1 << uint(s.Choose("vbit", 64))
		return serWire(fs), "varint bit flipped"
	case 5:
		if f.wt == 2 && !f.isMsg && len(f.b) > 0 {
			f.b[s.Choose("flip-pos", len(f.b))] ^= byte(1 << uint(s.Choose("flip-bit", 8)))
			return serWire(fs), "byte flipped in a leaf"
		}
		f.v++
		return serWire(fs), "varint incremented"
	case 6:
		if len(*r.parent) > 1 {
			j := s.Choose("swap-with", len(*r.parent))
			(*r.parent)[r.idx], (*r.parent)[j] = (*r.parent)[j], (*r.parent)[r.idx]
			return serWire(fs), "fields reordered"
		}
		return mutateRaw(s, b)
	case 7:
		out := serWire(fs)
		if len(out) > 1 {
			return out[:s.Choose("cut", len(out))], "truncated"
		}
		return out, "unchanged"
	case 8:
		switch f.wt {
		case 0:
			f.wt, f.b = 2, []byte{byte(f.v)}
		case 2:
			f.wt, f.isMsg, f.sub = 0, false, nil
			f.v = uint64(len(f.b))
		default:
			f.wt = 0
		}
		return serWire(fs), "wire type changed"
	case 9:
		f.num = []uint64{1, 2, 3, 15, 16, 1000, 1<<29 - 1}[s.Choose("renumber", 7)]
		return serWire(fs), "field number changed"
	case 10:
		if dfs, ok := parseWire(donor, 0); ok && len(dfs) > 0 {
			var drefs []wref
			flatten(&dfs, &drefs)
			d := drefs[s.Choose("donor-field", len(drefs))]
			(*r.parent)[r.idx] = (*d.parent)[d.idx]
			return serWire(fs), "field replaced by one from another message"
		}
		return mutateRaw(s, b)
	default:
		if f.wt == 2 {
			n := []int{1, 31, 32, 33, 64, 200}[s.Choose("fill-len", 6)]
			f.isMsg, f.sub = false, nil
			f.b = make([]byte, n)
			for i := range f.b {
				f.b[i] = byte(s.Choose("fill", 256))
			}
			return serWire(fs), "byte string replaced by random bytes"
		}
		f.v = uint64(s.Choose("small", 8))
		return serWire(fs), "varint set to a small value"
	}
}

func mutateRaw(s *core.Src, b []byte) ([]byte, string) {
	c := append([]byte{}, b...)
	switch s.Choose("raw-mutation", 5) {
	case 0:
		if len(c) > 0 {
			return c[:s.Choose("raw-cut", len(c))], "raw: truncated"
		}
	case 1:
		if len(c) > 0 {
			c[s.Choose("raw-pos", len(c))] ^= byte(1 << uint(s.Choose("raw-bit", 8)))
			return c, "raw: bit flipped"
		}
	case 2:
		n := s.Choose("raw-len", 24)
		c = make([]byte, n)
		for i := range c {
			c[i] = byte(s.Choose("raw-byte", 256))
		}
		return c, "raw: random bytes"
	case 3:
		if len(c) > 2 {
			i := s.Choose("raw-dup-at", len(c))
			c = append(c[:i], append(append([]byte{}, c[i:minInt(len(c), i+8)]...), c[i:]...)...)
			return c, "raw: segment duplicated"
		}
	case 4:
		return append(c, 0xff, 0xff, 0xff, 0xff, 0x0f), "raw: varint appended"
	}
	return nil, "raw: empty"
}

func minInt(a, b int) int {
	if a < b {
		return a
	}
	return b
}

func maxI64(a, b int64) int64 {
	if a > b {
		return a
	}
	return b
}
