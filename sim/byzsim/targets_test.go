package byzsim

import (
	"bytes"
	"context"
	"encoding/binary"
	"errors"
	"fmt"
	"io"
	"time"

	"storj.io/drpc"

	"github.com/anyproto/any-sync/accountservice"
	"github.com/anyproto/any-sync/app"
	"github.com/anyproto/any-sync/app/ldiff"
	"github.com/anyproto/any-sync/commonspace/headsync"
	"github.com/anyproto/any-sync/commonspace/object/accountdata"
	"github.com/anyproto/any-sync/commonspace/object/acl/list"
	"github.com/anyproto/any-sync/commonspace/object/acl/recordverifier"
	"github.com/anyproto/any-sync/commonspace/object/keyvalue/keyvaluestorage/innerstorage"
	"github.com/anyproto/any-sync/commonspace/object/tree/treechangeproto"
	"github.com/anyproto/any-sync/commonspace/pubsub"
	"github.com/anyproto/any-sync/commonspace/pubsub/pubsubproto"
	"github.com/anyproto/any-sync/commonspace/spacepayloads"
	"github.com/anyproto/any-sync/commonspace/spacestorage"
	"github.com/anyproto/any-sync/commonspace/spacesyncproto"
	"github.com/anyproto/any-sync/consensus/consensusproto"
	"github.com/anyproto/any-sync/net/peer"
	"github.com/anyproto/any-sync/net/rpc/encoding"
	"github.com/anyproto/any-sync/net/secureservice"
	"github.com/anyproto/any-sync/net/streampool/streamhandler"
	"github.com/anyproto/any-sync/nodeconf"
	"github.com/anyproto/any-sync/util/cidutil"
	"github.com/anyproto/any-sync/util/crypto"

	"verif/sim/core"
	"verif/sim/simlib"
)

func somePerm(s *core.Src, n int) list.AclPermissions {
	return []list.AclPermissions{list.AclPermissionsReader, list.AclPermissionsWriter, list.AclPermissionsAdmin}[s.Choose("perm", n)]
}

// ---- ACL ---------------------------------------------------------------------------------------------------------

type aclView struct {
	acc  *simlib.Account
	l    list.AclList
	next int // index into space.Records of the next record this view has not seen
	kind int // verifier kind
}

type aclTarget struct {
	w       *world
	views   []*aclView
	extra   []*simlib.Account
	invites []crypto.PrivKey
	reqs    []string
}

func (t *aclTarget) rebuild(v *aclView) {
	recs := append([]*consensusproto.RawRecordWithId{t.w.space.Payload.AclWithId}, t.w.space.Records[:v.next]...)
	st, err := list.NewInMemoryStorage(t.w.space.Payload.AclWithId.Id, recs)
	must(err)
	v.l, err = list.BuildAclListWithIdentity(v.acc.Keys, st, recordverifier.NewValidateFull())
	must(err)
}

func (w *world) aclTarget() *aclTarget {
	if w.at != nil {
		return w.at
	}
	t := &aclTarget{w: w}
	for i, a := range []*simlib.Account{w.owner, w.wr, w.rd} {
		_ = i
		v := &aclView{acc: a, next: len(w.space.Records), kind: 0}
		t.rebuild(v)
		t.views = append(t.views, v)
	}
	w.at = t
	return t
}

// honest: the owner (or a joining account) produces the next valid record; the views do not have it yet.
func (t *aclTarget) honest() {
	w, s := t.w, t.w.s
	sp := w.space
	rb := sp.Authority.RecordBuilder()
	defer func() {
		if p := recover(); p != nil {
			panic(fmt.Sprintf("harness: honest ACL record construction failed: %v", p))
		}
	}()
	// (the real read-key-change builder ranges over Go maps, so its bytes differ from run to run and the wire
	// mutator's choices with them: removals through the harness's sorted builder carry the same content)
	switch s.Weighted("acl-honest", []int{3, 2, 2, 2, 2 * minInt(len(t.invites), 1), 2 * minInt(len(t.reqs), 1), 0}) {
	case 0:
		a := simlib.NewAccount(fmt.Sprintf("acc%d", len(t.extra)+1))
		t.extra = append(t.extra, a)
		sp.Add(somePerm(s, 3), a)
	case 1:
		if len(t.extra) > 0 {
			a := t.extra[s.Choose("reperm", len(t.extra))]
			if !sp.Authority.AclState().Permissions(a.Pub()).NoPermissions() {
				sp.ChangePerm(a, somePerm(s, 3))
			}
		}
	case 2:
		if len(t.extra) > 0 && len(t.invites) == 0 { // the harness's deterministic removal builder does not rotate invite keys
			a := t.extra[s.Choose("remove", len(t.extra))]
			if !sp.Authority.AclState().Permissions(a.Pub()).NoPermissions() {
				sp.Remove(a)
			}
		}
	case 3:
		var res list.InviteResult
		var err error
		if s.Flip("invite-anyone", 0.5) {
			res, err = rb.BuildInviteAnyone(somePerm(s, 2))
		} else {
			res, err = rb.BuildInvite()
		}
		if err == nil {
			if _, err = sp.Accept(res.InviteRec); err == nil {
				t.invites = append(t.invites, res.InviteKey)
			}
		}
	case 4: // an outsider uses an invite
		a := simlib.NewAccount(fmt.Sprintf("joiner%d", len(t.extra)+1))
		t.extra = append(t.extra, a)
		st, err := list.NewInMemoryStorage(sp.Payload.AclWithId.Id, append([]*consensusproto.RawRecordWithId{sp.Payload.AclWithId}, sp.Records...))
		must(err)
		jl, err := list.BuildAclListWithIdentity(a.Keys, st, recordverifier.NewValidateFull())
		must(err)
		key := t.invites[s.Choose("invite", len(t.invites))]
		raw, err := jl.RecordBuilder().BuildRequestJoin(list.RequestJoinPayload{InviteKey: key, Metadata: []byte("joiner")})
		if err != nil {
			raw, err = jl.RecordBuilder().BuildInviteJoinWithoutApprove(list.InviteJoinPayload{InviteKey: key, Metadata: []byte("joiner")})
		}
		if err == nil {
			if rec, err := sp.Accept(raw); err == nil {
				t.reqs = append(t.reqs, rec.Id)
			}
		}
	case 5:
		id := t.reqs[s.Choose("request", len(t.reqs))]
		if raw, err := rb.BuildRequestAccept(list.RequestAcceptPayload{RequestRecordId: id, Permissions: somePerm(s, 2)}); err == nil {
			_, _ = sp.Accept(raw)
		}
	case 6:
		mk, _, err := crypto.GenerateRandomEd25519KeyPair()
		must(err)
		if raw, err := rb.BuildReadKeyChange(list.ReadKeyChangePayload{MetadataKey: mk, ReadKey: crypto.NewAES()}); err == nil {
			_, _ = sp.Accept(raw)
		}
	}
	w.r.Probe("honest-progress:acl")
}

// hostileRecord derives a hostile record from the honest one the view would get next.
func (t *aclTarget) hostileRecord(orig *consensusproto.RawRecordWithId, v *aclView) (*consensusproto.RawRecordWithId, string) {
	w, s := t.w, t.w.s
	raw := &consensusproto.RawRecord{}
	if err := raw.UnmarshalVT(orig.Payload); err != nil {
		return orig, "honest"
	}
	rec := &consensusproto.Record{}
	if err := rec.UnmarshalVT(raw.Payload); err != nil {
		return orig, "honest"
	}
	donor := w.space.Records[s.Choose("acl-donor", len(w.space.Records))]
	draw := &consensusproto.RawRecord{}
	_ = draw.UnmarshalVT(donor.Payload)
	drec := &consensusproto.Record{}
	_ = drec.UnmarshalVT(draw.Payload)
	resign := func(r *consensusproto.Record, signer *simlib.Account) *consensusproto.RawRecordWithId {
		b, err := r.MarshalVT()
		must(err)
		sig, err := signer.Keys.SignKey.Sign(b)
		must(err)
		out := &consensusproto.RawRecord{Payload: b, Signature: sig, AcceptorIdentity: raw.AcceptorIdentity, AcceptorSignature: raw.AcceptorSignature}
		return simlib.Wrap(out)
	}
	signer := w.owner
	if s.Flip("signed-by-member", 0.25) {
		signer = w.wr
		rec.Identity, _ = w.wr.Pub().Marshall()
	}
	switch s.Weighted("acl-mutation", []int{3, 4, 8, 3}) {
	case 0:
		b, what := mutateWire(s, orig.Payload, donor.Payload)
		id := orig.Id
		if s.Flip("fresh-id", 0.5) {
			id, _ = cidutil.NewCidFromBytes(b)
		}
		return &consensusproto.RawRecordWithId{Payload: b, Id: id}, "envelope: " + what
	case 1:
		b, what := mutateWire(s, raw.Payload, draw.Payload)
		sig, err := signer.Keys.SignKey.Sign(b)
		must(err)
		return simlib.Wrap(&consensusproto.RawRecord{Payload: b, Signature: sig}), "record re-signed by " + signer.Name + ": " + what
	case 2:
		b, what := mutateWire(s, rec.Data, drec.Data)
		rec.Data = b
		return resign(rec, signer), "content re-signed by " + signer.Name + ": " + what
	default:
		ids := []string{"", "no-such-record", w.space.Payload.AclWithId.Id, orig.Id}
		if v.next > 0 {
			ids = append(ids, w.space.Records[s.Choose("older", v.next)].Id)
		}
		rec.PrevId = ids[s.Choose("prev", len(ids))]
		return resign(rec, signer), "previous id replaced, re-signed by " + signer.Name
	}
}

func (w *world) stepAcl() {
	t := w.aclTarget()
	s := w.s
	v := t.views[s.Choose("view", len(t.views))]
	if v.next >= len(w.space.Records) || s.Flip("acl-more-history", 0.2) {
		t.honest()
	}
	if v.next >= len(w.space.Records) {
		return
	}
	orig := w.space.Records[v.next]
	if s.Flip("acl-honest-delivery", 0.3) {
		if err := v.l.AddRawRecord(orig); err != nil {
			w.r.Fail("harness-honest-record-refused", "", "the %s view refuses the honest record %d: %v", v.acc.Name, v.next, err)
		}
		v.next++
		return
	}
	h, what := t.hostileRecord(orig, v)
	what = v.acc.Name + " view: " + what
	expectHead := w.space.Payload.AclWithId.Id
	if v.next > 0 {
		expectHead = w.space.Records[v.next-1].Id
	}
	switch s.Weighted("acl-entry", []int{5, 3, 2}) {
	case 0:
		w.guard("acl.AddRawRecord", what, len(h.Payload), func() error { return v.l.AddRawRecord(h) })
	case 1:
		batch := []*consensusproto.RawRecordWithId{h, orig}
		if s.Flip("hostile-second", 0.5) {
			batch = []*consensusproto.RawRecordWithId{orig, h}
		}
		w.guard("acl.AddRawRecords", what, len(h.Payload)+len(orig.Payload), func() error { return v.l.AddRawRecords(batch) })
	case 2:
		raw := &consensusproto.RawRecord{}
		if err := raw.UnmarshalVT(h.Payload); err != nil {
			w.r.Probe("undecodable-before-entry")
			return
		}
		w.guard("acl.ValidateRawRecord", what, len(h.Payload), func() error {
			v.l.Lock()
			defer v.l.Unlock()
			return v.l.ValidateRawRecord(raw, nil)
		})
	}
	// a view that took something in (or got the honest record through a batch) is put back in step
	if v.l.Head().Id != expectHead {
		if v.l.Head().Id == orig.Id {
			v.next++
		} else {
			w.r.Probe("hostile-record-accepted")
			t.rebuild(v)
		}
	}
}

// ---- key-value ------------------------------------------------------------------------------------------------------

func (w *world) stepKv() {
	s := w.s
	acc := []*simlib.Account{w.owner, w.wr}[s.Choose("kv-author", 2)]
	ident, err := acc.Pub().Marshall()
	must(err)
	pk, err := acc.Keys.PeerKey.GetPublic().Marshall()
	must(err)
	inner := &spacesyncproto.StoreKeyInner{Peer: pk, Identity: ident, Value: []byte("value"), TimestampMicro: 1_000_000 + int64(s.Choose("ts", 1000)), AclHeadId: w.space.Authority.Head().Id, Key: "k"}
	ib, err := inner.MarshalVT()
	must(err)
	what := "well-formed"
	if s.Flip("kv-inner", 0.6) {
		ib, what = mutateWire(s, ib, ib)
		what = "signed content: " + what
	}
	is, err := acc.Keys.SignKey.Sign(ib)
	must(err)
	ps, err := acc.Keys.PeerKey.Sign(ib)
	must(err)
	kv := &spacesyncproto.StoreKeyValue{KeyPeerId: "k-" + acc.Keys.PeerId, Value: ib, IdentitySignature: is, PeerSignature: ps}
	b, err := kv.MarshalVT()
	must(err)
	if s.Flip("kv-envelope", 0.4) {
		var ew string
		b, ew = mutateWire(s, b, b)
		what += "; envelope: " + ew
	}
	out := &spacesyncproto.StoreKeyValue{}
	if err := out.UnmarshalVT(b); err != nil {
		w.r.Probe("undecodable-before-entry")
		return
	}
	w.guard("keyvalue.KeyValueFromProto", what, len(b), func() error {
		_, err := innerstorage.KeyValueFromProto(out, true)
		return err
	})
}

// ---- range-hash diff ---------------------------------------------------------------------------------------------------

type diffTarget struct {
	d ldiff.Diff
	n int
}

func (w *world) diffTarget() *diffTarget {
	if w.dt != nil {
		return w.dt
	}
	t := &diffTarget{d: ldiff.New(8, 8)}
	w.dt = t
	for i := 0; i < 20+w.s.Choose("diff-fill", 300); i++ {
		t.add(w)
	}
	return t
}

func (t *diffTarget) add(w *world) {
	t.n++
	id, _ := cidutil.NewCidFromBytes([]byte(fmt.Sprintf("obj-%d-%d", t.n, w.s.Choose("idsalt", 1000))))
	t.d.Set(ldiff.Element{Id: id, Head: fmt.Sprintf("h%d", t.n)})
}

// lyingRemote answers range requests with whatever the seed says.
type lyingRemote struct {
	w     *world
	calls int
	mode  int
	sizes []int
}

func (l *lyingRemote) Ranges(ctx context.Context, ranges []ldiff.Range, resBuf []ldiff.RangeResult) ([]ldiff.RangeResult, error) {
	s := l.w.s
	l.calls++
	l.sizes = append(l.sizes, len(ranges))
	if l.calls > 5000 {
		return nil, errors.New("harness: the local side keeps asking (more than 5000 range requests for one diff)")
	}
	n := len(ranges)
	switch l.mode {
	case 0:
		n = s.Choose("results", len(ranges)+3)
	case 1:
		n = 0
	}
	var out []ldiff.RangeResult
	for i := 0; i < n; i++ {
		rr := ldiff.RangeResult{Hash: []byte{byte(s.Choose("hash", 256))}, Count: s.Choose("count", 40)}
		switch s.Choose("result-kind", 5) {
		case 0:
			rr.Hash = nil
		case 1:
			rr.Count = 1 << 30
		case 2:
			for k := 0; k < s.Choose("nelems", 5); k++ {
				rr.Elements = append(rr.Elements, ldiff.Element{Id: fmt.Sprintf("e%d", s.Choose("eid", 50)), Head: "x"})
			}
			if s.Flip("count-mismatch", 0.5) {
				rr.Count = len(rr.Elements) + s.Choose("off", 3)
			} else {
				rr.Count = len(rr.Elements)
			}
		case 3:
			rr.Count = -1
		}
		out = append(out, rr)
	}
	return out, nil
}

// hostileHeadSync: an honest head-sync server whose answers are corrupted in flight.
type hostileHeadSync struct {
	w     *world
	srv   ldiff.Diff
	calls int
}

func (h *hostileHeadSync) HeadSync(ctx context.Context, in *spacesyncproto.HeadSyncRequest) (*spacesyncproto.HeadSyncResponse, error) {
	h.calls++
	if h.calls > 5000 {
		return nil, errors.New("harness: the client keeps asking (more than 5000 requests for one diff)")
	}
	resp, err := headsync.HandleRangeRequest(ctx, h.srv, in)
	if err != nil {
		return nil, err
	}
	b, err := resp.MarshalVT()
	if err != nil {
		return nil, err
	}
	if h.w.s.Flip("corrupt-answer", 0.6) {
		b, _ = mutateWire(h.w.s, b, b)
	}
	out := &spacesyncproto.HeadSyncResponse{}
	if err := out.UnmarshalVT(b); err != nil {
		return nil, err
	}
	return out, nil
}

func (w *world) stepDiff() {
	t := w.diffTarget()
	s := w.s
	if s.Flip("diff-honest-progress", 0.2) {
		t.add(w)
		return
	}
	if s.Flip("diff-as-server", 0.6) {
		req := &spacesyncproto.HeadSyncRequest{SpaceId: w.space.Id, DiffType: spacesyncproto.DiffType_V3}
		for i := 0; i < 1+s.Choose("nranges", 4); i++ {
			from := uint64(s.Choose("from", 1<<16)) << 48
			req.Ranges = append(req.Ranges, &spacesyncproto.HeadSyncRange{From: from, To: from + uint64(s.Choose("width", 1<<16))<<40, Limit: uint32(s.Choose("limit", 20)), Elements: s.Flip("elements", 0.3)})
		}
		b, err := req.MarshalVT()
		must(err)
		b, what := mutateWire(s, b, b)
		out := &spacesyncproto.HeadSyncRequest{}
		if err := out.UnmarshalVT(b); err != nil {
			w.r.Probe("undecodable-before-entry")
			return
		}
		w.guard("headsync.HandleRangeRequest", what, len(b), func() error {
			_, err := headsync.HandleRangeRequest(ctxb, t.d, out)
			return err
		})
		return
	}
	if s.Flip("diff-through-wire-adapter", 0.5) {
		// the client side of head sync: answers of an honest server (a second index), corrupted on the wire
		srv := ldiff.New(8, 8)
		for i, e := range t.d.Elements() {
			if i%3 != 0 {
				srv.Set(e)
			}
		}
		srv.Set(ldiff.Element{Id: "only-on-the-server", Head: "h"})
		hc := &hostileHeadSync{w: w, srv: srv}
		rd := headsync.NewRemoteDiff(w.space.Id, hc)
		w.guard("headsync.RemoteDiff", "server answers corrupted on the wire", 64, func() error {
			ctx, cancel := context.WithTimeout(ctxb, time.Minute)
			defer cancel()
			if _, err := rd.DiffTypeCheck(ctx, t.d); err != nil {
				return err
			}
			if w.s.Flip("compare-variant", 0.4) {
				_, _, _, _, err := t.d.(ldiff.CompareDiff).CompareDiff(ctx, rd)
				return err
			}
			_, _, _, err := t.d.Diff(ctx, rd)
			return err
		})
		return
	}
	lr := &lyingRemote{w: w, mode: s.Choose("liar-mode", 3)}
	w.guard("ldiff.Diff", fmt.Sprintf("remote that lies (mode %d)", lr.mode), 64, func() error {
		ctx, cancel := context.WithTimeout(ctxb, time.Minute)
		defer cancel()
		if w.s.Flip("compare-variant", 0.4) { // the comparing variant is what the key-value store sync runs
			_, _, _, _, err := t.d.(ldiff.CompareDiff).CompareDiff(ctx, lr)
			return err
		}
		_, _, _, err := t.d.Diff(ctx, lr)
		return err
	})

}

// ---- handshake ------------------------------------------------------------------------------------------------------------

type hsAccount struct{ keys *accountdata.AccountKeys }

func (a *hsAccount) Init(*app.App) error               { return nil }
func (a *hsAccount) Name() string                      { return accountservice.CName }
func (a *hsAccount) Account() *accountdata.AccountKeys { return a.keys }

type hsNodeConf struct {
	nodeconf.Service
}

func (n *hsNodeConf) Init(*app.App) error                  { return nil }
func (n *hsNodeConf) Name() string                         { return nodeconf.CName }
func (n *hsNodeConf) NodeTypes(string) []nodeconf.NodeType { return nil }

type hsConfig struct{ c secureservice.Config }

func (c *hsConfig) Init(*app.App) error                    { return nil }
func (c *hsConfig) Name() string                           { return "config" }
func (c *hsConfig) GetSecureService() secureservice.Config { return c.c }

type hsTarget struct {
	svc    []secureservice.SecureService
	honest [][]byte // authentic frames recorded from a successful handshake
}

// scriptConn feeds a fixed byte script to the reader and swallows writes.
type scriptConn struct {
	in     *bytes.Reader
	closed bool
}

func (c *scriptConn) Read(p []byte) (int, error) {
	if c.closed {
		return 0, io.ErrClosedPipe
	}
	n, err := c.in.Read(p)
	if err == io.EOF {
		return n, io.EOF
	}
	return n, err
}
func (c *scriptConn) Write(p []byte) (int, error) { return len(p), nil }
func (c *scriptConn) Close() error                { c.closed = true; return nil }

// tapConn connects two services and records what each direction carries.
type tapConn struct {
	r   *io.PipeReader
	w   *io.PipeWriter
	rec *[][]byte
}

func (c *tapConn) Read(p []byte) (int, error) { return c.r.Read(p) }
func (c *tapConn) Write(p []byte) (int, error) {
	*c.rec = append(*c.rec, append([]byte{}, p...))
	return c.w.Write(p)
}
func (c *tapConn) Close() error { _ = c.r.Close(); return c.w.Close() }

func (w *world) hsTarget() *hsTarget {
	if w.ht != nil {
		return w.ht
	}
	t := &hsTarget{}
	for i := 0; i < 2; i++ {
		a := new(app.App)
		a.SetVersionName("sim:byz")
		a.Register(&hsAccount{[]*simlib.Account{w.owner, w.wr}[i].Keys}).Register(&hsNodeConf{}).Register(&hsConfig{secureservice.Config{RequireClientAuth: i == 0}})
		svc := secureservice.New()
		must(svc.Init(a))
		t.svc = append(t.svc, svc)
	}
	// one authentic exchange, recorded
	ar, bw := io.Pipe()
	br, aw := io.Pipe()
	var toIn, toOut [][]byte
	done := make(chan struct{})
	go func() {
		defer close(done)
		_, _ = t.svc[0].HandshakeInbound(ctxb, &tapConn{r: ar, w: aw, rec: &toOut}, w.wr.Keys.PeerId)
	}()
	ctx := peer.CtxWithPeerId(ctxb, w.owner.Keys.PeerId)
	_, _ = t.svc[1].HandshakeOutbound(secureservice.CtxAllowAccountCheck(ctx), &tapConn{r: br, w: bw, rec: &toIn}, w.owner.Keys.PeerId)
	<-done
	t.honest = append(toIn, toOut...)
	w.ht = t
	return t
}

func (w *world) stepHandshake() {
	t := w.hsTarget()
	s := w.s
	var script []byte
	what := ""
	nframes := 1 + s.Choose("frames", 3)
	for i := 0; i < nframes; i++ {
		var f []byte
		if len(t.honest) > 0 && s.Flip("from-authentic", 0.7) {
			f = append([]byte{}, t.honest[s.Choose("authentic", len(t.honest))]...)
			if len(f) > 5 && s.Flip("mutate-payload", 0.7) {
				p, pw := mutateWire(s, f[5:], f[5:])
				f = append(f[:5:5], p...)
				if !s.Flip("stale-size", 0.2) {
					binary.LittleEndian.PutUint32(f[1:5], uint32(len(p)))
				}
				what += "[payload: " + pw + "]"
			} else {
				what += "[authentic]"
			}
		} else {
			tp := byte(s.Choose("type", 5))
			// (claimed lengths up to 2^29, and the ones past the sign bit of a 32-bit number: a correct reader refuses all
			// of them before allocating)
			size := []uint32{0, 1, 7, 200 * 1024, 200*1024 + 1, 1 << 27, 1 << 29, 0x80000000, 0x80000001, 0xfffffff0, 0xffffffff}[s.Choose("size", 11)]
			f = make([]byte, 5, 5+16)
			f[0] = tp
			binary.LittleEndian.PutUint32(f[1:5], size)
			for k := 0; k < s.Choose("body", 16); k++ {
				f = append(f, byte(s.Choose("byte", 256)))
			}
			what += fmt.Sprintf("[type %d size %d body %d]", tp, size, len(f)-5)
		}
		if s.Flip("cut-frame", 0.15) && len(f) > 1 {
			f = f[:s.Choose("cut-at", len(f))]
			what += "(cut)"
		}
		script = append(script, f...)
	}
	inbound := s.Flip("inbound", 0.5)
	svc := t.svc[s.Choose("service", 2)]
	entry := "secureservice.HandshakeOutbound"
	if inbound {
		entry = "secureservice.HandshakeInbound"
	}
	w.guard(entry, what, len(script), func() error {
		ctx, cancel := context.WithTimeout(peer.CtxWithPeerId(ctxb, w.wr.Keys.PeerId), 30*time.Second)
		defer cancel()
		conn := &scriptConn{in: bytes.NewReader(script)}
		var err error
		if inbound {
			_, err = svc.HandshakeInbound(ctx, conn, w.wr.Keys.PeerId)
		} else {
			_, err = svc.HandshakeOutbound(ctx, conn, w.wr.Keys.PeerId)
		}
		return err
	})
}

// ---- space payloads ---------------------------------------------------------------------------------------------------------

func (w *world) stepPayload() {
	s := w.s
	p := w.space.Payload
	other := simlib.NewSpace(w.wr, 7)
	cp := spacestorage.SpaceStorageCreatePayload{
		AclWithId:           &consensusproto.RawRecordWithId{Payload: p.AclWithId.Payload, Id: p.AclWithId.Id},
		SpaceHeaderWithId:   &spacesyncproto.RawSpaceHeaderWithId{RawHeader: p.SpaceHeaderWithId.RawHeader, Id: p.SpaceHeaderWithId.Id},
		SpaceSettingsWithId: p.SpaceSettingsWithId,
	}
	what := ""
	switch s.Choose("payload-part", 5) {
	case 0:
		cp.SpaceHeaderWithId.RawHeader, what = mutateWire(s, p.SpaceHeaderWithId.RawHeader, other.Payload.SpaceHeaderWithId.RawHeader)
		what = "header: " + what
	case 1:
		cp.AclWithId.Payload, what = mutateWire(s, p.AclWithId.Payload, other.Payload.AclWithId.Payload)
		what = "acl root: " + what
	case 2:
		st := &treechangeproto.RawTreeChangeWithId{Id: p.SpaceSettingsWithId.Id}
		st.RawChange, what = mutateWire(s, p.SpaceSettingsWithId.RawChange, other.Payload.SpaceSettingsWithId.RawChange)
		cp.SpaceSettingsWithId = st
		what = "settings root: " + what
	case 3:
		cp.AclWithId = other.Payload.AclWithId
		what = "acl root of another space"
	case 4:
		cp.SpaceHeaderWithId.Id = []string{"", "x", other.Id, p.SpaceHeaderWithId.Id + ".zz", "." + p.SpaceHeaderWithId.Id}[s.Choose("space-id", 5)]
		what = "space id replaced"
	}
	size := len(cp.SpaceHeaderWithId.RawHeader) + len(cp.AclWithId.Payload) + len(cp.SpaceSettingsWithId.RawChange)
	if s.Flip("header-only", 0.3) {
		w.guard("spacepayloads.ValidateSpaceHeader", what, len(cp.SpaceHeaderWithId.RawHeader), func() error {
			_, err := spacepayloads.ValidateSpaceHeader(cp.SpaceHeaderWithId, nil, nil, nil)
			return err
		})
		return
	}
	w.guard("spacepayloads.ValidateSpaceStorageCreatePayload", what, size, func() error {
		return spacepayloads.ValidateSpaceStorageCreatePayload(cp)
	})
}

// ---- key and ciphertext decoders ---------------------------------------------------------------------------------------------

func (w *world) stepCrypto() {
	s := w.s
	msg := []byte("a read key or metadata blob")
	var in []byte
	what := ""
	pick := s.Choose("crypto-entry", 7)
	switch pick {
	case 0, 1:
		ct, err := w.wr.Pub().Encrypt(msg)
		must(err)
		in, what = mutateRaw(s, ct)
		if s.Flip("short", 0.5) {
			in = ct[:s.Choose("prefix", minInt(len(ct), 50))]
			what = fmt.Sprintf("ciphertext cut to %d bytes", len(in))
		}
	case 2:
		k := crypto.NewAES()
		ct, err := k.Encrypt(msg)
		must(err)
		in = ct[:s.Choose("prefix", minInt(len(ct), 40))]
		what = fmt.Sprintf("symmetric ciphertext cut to %d bytes", len(in))
	default:
		b, err := w.wr.Pub().Marshall()
		must(err)
		in, what = mutateWire(s, b, b)
	}
	switch pick {
	case 0, 1:
		w.guard("crypto.PrivKey.Decrypt", what, len(in), func() error { _, err := w.wr.Keys.SignKey.Decrypt(in); return err })
	case 2:
		k := crypto.NewAES()
		w.guard("crypto.SymKey.Decrypt", what, len(in), func() error { _, err := k.Decrypt(in); return err })
	case 3:
		w.guard("crypto.UnmarshalEd25519PublicKeyProto", what, len(in), func() error {
			k, err := crypto.UnmarshalEd25519PublicKeyProto(in)
			if err == nil {
				_ = k.Account()
				_ = k.PeerId()
				_, _ = k.Encrypt(msg)
				_, _ = k.Verify(msg, in)
			}
			return err
		})
	case 4:
		w.guard("crypto.UnmarshalEd25519PrivateKeyProto", what, len(in), func() error {
			k, err := crypto.UnmarshalEd25519PrivateKeyProto(in)
			if err == nil {
				_, _ = k.Sign(msg)
				_, _ = k.Decrypt(in)
			}
			return err
		})
	case 5:
		str := string(in)
		if s.Flip("address-like", 0.5) {
			str = w.wr.Pub().Account()
			str = str[:s.Choose("addr-len", len(str)+1)] + string(in[:minInt(len(in), 3)])
		}
		w.guard("crypto.DecodeAccountAddress", what, len(str), func() error { _, err := crypto.DecodeAccountAddress(str); return err })
	case 6:
		str := w.wr.Keys.PeerId
		str = str[:s.Choose("peer-len", len(str)+1)] + string(in[:minInt(len(in), 3)])
		w.guard("crypto.DecodePeerId", what, len(str), func() error { _, err := crypto.DecodePeerId(str); return err })
	}
}

// ---- rpc encoding wrapper -------------------------------------------------------------------------------------------------------

type encStream struct {
	ctx   context.Context
	input []byte
}

func (e *encStream) Context() context.Context { return e.ctx }
func (e *encStream) MsgSend(msg drpc.Message, enc drpc.Encoding) error {
	_, err := enc.Marshal(msg)
	return err
}
func (e *encStream) MsgRecv(msg drpc.Message, enc drpc.Encoding) error {
	return enc.Unmarshal(e.input, msg) // what the drpc stream does with the bytes of a received frame
}
func (e *encStream) CloseSend() error { return nil }
func (e *encStream) Close() error     { return nil }

type encHandler struct{}

func (encHandler) HandleRPC(stream drpc.Stream, rpc string) error {
	return stream.MsgRecv(&spacesyncproto.ObjectSyncMessage{}, nil)
}

func (w *world) stepEncoding() {
	s := w.s
	msg := &spacesyncproto.ObjectSyncMessage{SpaceId: w.space.Id, ObjectId: "obj", Payload: bytes.Repeat([]byte("payload "), 1+s.Choose("payload-reps", 40))}
	snappyOn := s.Flip("snappy", 0.7)
	ctx := ctxb
	if snappyOn {
		ctx = encoding.CtxWithSnappy(ctx)
	}
	// the honest bytes: what the wrapper's own encoder produces
	var honest []byte
	h := encoding.WrapHandler(drpcHandlerFunc(func(stream drpc.Stream, rpc string) error {
		return stream.MsgSend(msg, nil)
	}))
	cap := &captureStream{ctx: ctx}
	_ = h.HandleRPC(cap, "rpc")
	honest = cap.out
	in, what := mutateRaw(s, honest)
	if snappyOn && s.Flip("claimed-length", 0.4) {
		// a snappy block starts with the decoded length as a varint
		claimed := []uint64{1 << 20, 1 << 26, 1 << 28, 1 << 29}[s.Choose("claimed", 4)] // enough to trip the bound without thrashing the machine when the guard is missing
		in = binary.AppendUvarint(nil, claimed)
		in = append(in, honest[minInt(len(honest), 1):minInt(len(honest), 1+s.Choose("tail", 12))]...)
		what = fmt.Sprintf("block claiming %d decoded bytes", claimed)
	}
	entry := "rpc.encoding(proto).Unmarshal"
	if snappyOn {
		entry = "rpc.encoding(snappy).Unmarshal"
	}
	w.guard(entry, what, len(in), func() error {
		return encoding.WrapHandler(encHandler{}).HandleRPC(&encStream{ctx: ctx, input: in}, "rpc")
	})
}

type drpcHandlerFunc func(stream drpc.Stream, rpc string) error

func (f drpcHandlerFunc) HandleRPC(stream drpc.Stream, rpc string) error { return f(stream, rpc) }

type captureStream struct {
	ctx context.Context
	out []byte
}

func (c *captureStream) Context() context.Context { return c.ctx }
func (c *captureStream) MsgSend(msg drpc.Message, enc drpc.Encoding) error {
	b, err := enc.Marshal(msg)
	c.out = b
	return err
}
func (c *captureStream) MsgRecv(drpc.Message, drpc.Encoding) error { return io.EOF }
func (c *captureStream) CloseSend() error                          { return nil }
func (c *captureStream) Close() error                              { return nil }

// ---- pubsub frames -------------------------------------------------------------------------------------------------------------------

type pubTarget struct {
	svc pubsub.Service
	a   *app.App
	n   int
}

type allMembers struct{}

func (allMembers) CheckMember(context.Context, string, crypto.PubKey) error { return nil }

func (w *world) pubTarget() *pubTarget {
	if w.pt != nil {
		return w.pt
	}
	t := &pubTarget{}
	t.svc = pubsub.New(pubsub.Deps{Membership: allMembers{}, Config: pubsub.Config{MaxPayloadSize: 64}})
	t.a = new(app.App)
	t.a.Register(&hsAccount{w.wr.Keys}).Register(t.svc)
	must(t.a.Start(ctxb))
	_, err := t.svc.Subscribe("sA", ">", func(string, string, crypto.PubKey, []byte) { t.n++ })
	must(err)
	w.pt = t
	return t
}

func (t *pubTarget) close() { _ = t.a.Close(ctxb) }

func (w *world) stepPubsub() {
	t := w.pubTarget()
	s := w.s
	ident, err := w.owner.Pub().Marshall()
	must(err)
	id := make([]byte, 16)
	_, _ = w.r.Crypto.Read(id)
	p := &pubsubproto.Publish{SpaceId: "sA", Topic: "a/b", MsgId: id, Payload: []byte("x"), Identity: ident, TimestampMilli: time.Now().UnixMilli()}
	p.Signature, _ = w.owner.Keys.SignKey.Sign([]byte("not the signed bytes"))
	var m *pubsubproto.PubSubMessage
	switch s.Choose("frame", 3) {
	case 0:
		m = &pubsubproto.PubSubMessage{Content: &pubsubproto.PubSubMessage_Publish{Publish: p}}
	case 1:
		m = &pubsubproto.PubSubMessage{Content: &pubsubproto.PubSubMessage_Subscribe{Subscribe: &pubsubproto.Subscribe{SpaceId: "sA", Topics: []string{"a/*", ">"}}}}
	default:
		m = &pubsubproto.PubSubMessage{Content: &pubsubproto.PubSubMessage_Unsubscribe{Unsubscribe: &pubsubproto.Unsubscribe{SpaceId: "sA"}}}
	}
	b, err := m.MarshalVT()
	must(err)
	b, what := mutateWire(s, b, b)
	out := &pubsubproto.PubSubMessage{}
	if err := out.UnmarshalVT(b); err != nil {
		w.r.Probe("undecodable-before-entry")
		return
	}
	ctx := peer.CtxWithIdentity(peer.CtxWithPeerId(ctxb, "hostile"), ident)
	w.guard("pubsub.HandleMessage", what, len(b), func() error {
		return t.svc.(streamhandler.StreamHandler).HandleMessage(ctx, "hostile", out)
	})
}
