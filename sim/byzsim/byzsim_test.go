// Package byzsim: a byzantine peer as a fault kind (C11). One run builds a small live system with real code -
// a victim node with a sync tree over any-store, ACL views of several accounts, an ldiff index, a key-value
// decoder, secure services, the rpc encoding wrapper, a pubsub engine - lets an honest peer produce valid
// traffic for the state the victim is in, and delivers structure-aware corruptions of that traffic
// (re-signed where a signature would otherwise stop it at the door) to every entry point that parses or
// applies data of another party, interleaved with honest progress. Oracles per delivery: no panic, the call
// returns (real-time watchdog outside the bubble for CPU loops, fake-clock deadline for blocking reads), and
// the bytes allocated during the call are bounded by a constant plus a multiple of the input size.
package byzsim

import (
	"context"
	"fmt"
	"os"
	"path/filepath"
	"runtime"
	"strings"
	"testing"
	"time"

	"github.com/anyproto/any-sync/commonspace/object/acl/list"

	"verif/sim/core"
	"verif/sim/simlib"
)

var props = map[string]core.PropFn{"C11": runC11}

func TestSim(t *testing.T) {
	core.QuietLogs()
	core.Main(t, "byzsim", props)
}

var ctxb = context.Background()

func must(err error) {
	if err != nil {
		panic(err)
	}
}

type world struct {
	r     *core.Run
	s     *core.Src
	dir   string
	owner *simlib.Account
	wr    *simlib.Account
	rd    *simlib.Account
	space *simlib.Space
	// targets (lazily built)
	tt *treeTarget
	at *aclTarget
	dt *diffTarget
	ht *hsTarget
	pt *pubTarget
	// allocation accounting
	allocConst uint64
	allocPerB  uint64
	base       string // hang-watch label outside guarded deliveries
}

// guard runs one delivery of hostile input under the three oracles.
func (w *world) guard(entry string, what string, inputLen int, fn func() error) {
	r := w.r
	var m0, m1 runtime.MemStats
	runtime.ReadMemStats(&m0)
	core.CallStart(entry + ": " + what)
	var err error
	var pv any
	var stack string
	func() {
		defer func() {
			if p := recover(); p != nil {
				pv = p
				buf := make([]byte, 16<<10)
				stack = string(buf[:runtime.Stack(buf, false)])
			}
		}()
		err = fn()
	}()
	core.CallStart(w.base) // what follows until the next delivery is watched too (a lock left behind shows there)
	runtime.ReadMemStats(&m1)
	r.Count("evals")
	r.Count("deliveries:" + entry)
	r.Fault("hostile-input:" + entry)
	if pv != nil {
		r.Fail("panic", entry+":"+panicSite(stack), "%s: hostile input (%s, %d bytes) panics the process: %v\n%s", entry, what, inputLen, pv, trimStack(stack))
	}
	alloc := m1.TotalAlloc - m0.TotalAlloc
	if limit := w.allocConst + w.allocPerB*uint64(inputLen); alloc > limit {
		r.Fail("allocation-unrelated-to-input", entry, "%s: hostile input (%s) of %d bytes made the call allocate %d bytes (limit %d + %d per input byte)", entry, what, inputLen, alloc, w.allocConst, w.allocPerB)
	}
	if err != nil {
		r.Probe("rejected:" + entry)
	} else {
		r.Probe("accepted:" + entry)
	}
	res := "accepted"
	if err != nil {
		res = "rejected: " + short(err)
	}
	r.Event("deliver:"+entry, "%s (%d bytes): %s", what, inputLen, res)
}

func short(err error) string {
	s := err.Error()
	if len(s) > 60 {
		s = s[:60]
	}
	// error texts may quote random ids
	return strings.Map(func(c rune) rune {
		if c < 32 || c > 126 {
			return '?'
		}
		return c
	}, s)
}

// panicSite: first frame of the code under test in a recovered panic's stack.
func panicSite(stack string) string {
	for _, l := range strings.Split(stack, "\n") {
		if i := strings.Index(l, "github.com/anyproto/any-sync/"); i >= 0 && !strings.Contains(l, "verif/sim") {
			f := l[i+len("github.com/anyproto/any-sync/"):]
			if j := strings.IndexByte(f, '('); j > 0 {
				f = f[:j]
			}
			return strings.TrimRight(f, ".")
		}
		if i := strings.Index(l, "github.com/anyproto/any-store"); i >= 0 {
			continue
		}
	}
	return "unknown"
}

func trimStack(s string) string {
	l := strings.Split(s, "\n")
	if len(l) > 40 {
		l = l[:40]
	}
	return strings.Join(l, "\n")
}

func runC11(r *core.Run) {
	s := r.Src
	w := &world{r: r, s: s, allocConst: 48 << 20, allocPerB: 512}
	w.dir = simlib.ScratchDir("byz")
	defer os.RemoveAll(w.dir)
	w.owner, w.wr, w.rd = simlib.NewAccount("owner"), simlib.NewAccount("writer"), simlib.NewAccount("reader")
	w.space = simlib.NewSpace(w.owner, 0)
	w.space.Add(list.AclPermissionsWriter, w.wr)
	w.space.Add(list.AclPermissionsReader, w.rd)
	defer w.closeAll()
	// which entry-point families this run attacks (swarm: a random non-empty subset)
	families := []string{"tree", "acl", "kv", "diff", "handshake", "payload", "crypto", "encoding", "pubsub"}
	var on []string
	for _, f := range families {
		if s.Flip("family-"+f, 0.45) {
			on = append(on, f)
		}
	}
	if len(on) == 0 {
		on = []string{families[s.Choose("family", len(families))]}
	}
	if f := os.Getenv("VERIF_BYZ_FAMILY"); f != "" { // debugging aid: one family only
		on = []string{f}
	}
	r.SetCfg("families", strings.Join(on, ","))
	steps := s.Range("steps", 20, 120)
	defer core.CallEnd()
	for i := 0; i < steps && !r.Aborted(); i++ {
		f := on[s.Choose("which", len(on))]
		w.base = "harness and honest traffic of family " + f + " after the deliveries so far (a lock or goroutine left behind?)"
		core.CallStart(w.base)
		switch f {
		case "tree":
			w.stepTree()
		case "acl":
			w.stepAcl()
		case "kv":
			w.stepKv()
		case "diff":
			w.stepDiff()
		case "handshake":
			w.stepHandshake()
		case "payload":
			w.stepPayload()
		case "crypto":
			w.stepCrypto()
		case "encoding":
			w.stepEncoding()
		case "pubsub":
			w.stepPubsub()
		}
	}
	r.Nontriv = r.Counters["evals"] >= 10
	r.State(core.Mix(0, strings.Join(on, ",")))
	_ = time.Now
}

func (w *world) closeAll() {
	core.CallStart("closing the victim after the deliveries (a lock left behind?)")
	defer core.CallEnd()
	if w.tt != nil {
		w.tt.close()
	}
	if w.pt != nil {
		w.pt.close()
	}
}

func (w *world) sub(name string) string {
	d := filepath.Join(w.dir, name)
	must(os.MkdirAll(d, 0o755))
	return d
}

var _ = fmt.Sprint
