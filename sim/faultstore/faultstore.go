// Package faultstore wraps an anystore.DB: every call that crosses into the storage layer is a
// numbered boundary at which the simulator can return an error (once, or from then on: full disk) or
// take a crash image (copy of the database directory while the call is suspended: what the OS keeps
// if the process dies there). Underneath is the real any-store / SQLite.
package faultstore

import (
	"context"
	"errors"
	"fmt"

	anystore "github.com/anyproto/any-store"
	"github.com/anyproto/any-store/anyenc"
	"github.com/anyproto/any-store/query"
)

var ErrInjected = errors.New("faultstore: injected storage error")

// Plan decides what happens at each boundary. Boundaries are numbered from 1 in call order.
type Plan struct {
	Calls    []string // names of the boundaries crossed so far
	FailAt   int      // boundary that returns ErrInjected (0 = none)
	Sticky   bool     // every write boundary from FailAt on fails (full disk) until Disarm
	CrashAt  int      // boundary at which Image is called (before and after the real call)
	Image    func(phase string, n int, name string)
	Reads    bool // read calls are boundaries too
	Armed    bool // boundaries are only counted (and faults only fire) while armed
	disarmed bool
	Fired    int // number of injected errors
	// Hook, when set, is called at every armed boundary before the real call (the simulator can let other
	// goroutines run at that point, e.g. a worker racing with a start-up sequence)
	Hook func(n int, name string)
	// Only, when set, restricts boundaries to calls for which it returns true (e.g. the calls of one goroutine,
	// where a second goroutine of the code under test reaches the store in parallel and the n-th call overall
	// would not be the same call in every execution)
	Only func() bool
}

func (p *Plan) Disarm() { p.disarmed = true }

// enter registers a boundary; it returns true when the call must fail without reaching the store.
func (p *Plan) enter(name string, write bool) (n int, fail bool) {
	if p == nil || !p.Armed {
		return 0, false
	}
	if !write && !p.Reads {
		return 0, false
	}
	if p.Only != nil && !p.Only() {
		return 0, false
	}
	p.Calls = append(p.Calls, name)
	n = len(p.Calls)
	if p.Hook != nil {
		p.Hook(n, name)
	}
	if p.CrashAt == n && p.Image != nil {
		p.Image("before", n, name)
	}
	if !p.disarmed && p.FailAt > 0 && (n == p.FailAt || (p.Sticky && n > p.FailAt && write)) {
		p.Fired++
		return n, true
	}
	return n, false
}

func (p *Plan) leave(n int, name string) {
	if p != nil && n > 0 && p.CrashAt == n && p.Image != nil {
		p.Image("after", n, name)
	}
}

type DB struct {
	anystore.DB
	P *Plan
}

func Wrap(db anystore.DB, p *Plan) *DB { return &DB{DB: db, P: p} }

func (d *DB) wrapColl(c anystore.Collection, err error) (anystore.Collection, error) {
	if err != nil {
		return nil, err
	}
	return &coll{Collection: c, p: d.P}, nil
}

func (d *DB) CreateCollection(ctx context.Context, name string) (anystore.Collection, error) {
	n, fail := d.P.enter("db.CreateCollection("+name+")", true)
	if fail {
		return nil, ErrInjected
	}
	c, err := d.wrapColl(d.DB.CreateCollection(ctx, name))
	d.P.leave(n, "db.CreateCollection")
	return c, err
}

func (d *DB) OpenCollection(ctx context.Context, name string) (anystore.Collection, error) {
	n, fail := d.P.enter("db.OpenCollection("+name+")", false)
	if fail {
		return nil, ErrInjected
	}
	c, err := d.wrapColl(d.DB.OpenCollection(ctx, name))
	d.P.leave(n, "db.OpenCollection")
	return c, err
}

func (d *DB) Collection(ctx context.Context, name string) (anystore.Collection, error) {
	// may create the collection: a write boundary
	n, fail := d.P.enter("db.Collection("+name+")", true)
	if fail {
		return nil, ErrInjected
	}
	c, err := d.wrapColl(d.DB.Collection(ctx, name))
	d.P.leave(n, "db.Collection")
	return c, err
}

func (d *DB) WriteTx(ctx context.Context) (anystore.WriteTx, error) {
	n, fail := d.P.enter("db.WriteTx", true)
	if fail {
		return nil, ErrInjected
	}
	t, err := d.DB.WriteTx(ctx)
	d.P.leave(n, "db.WriteTx")
	if err != nil {
		return nil, err
	}
	return &wtx{WriteTx: t, p: d.P}, nil
}

type wtx struct {
	anystore.WriteTx
	p *Plan
}

func (t *wtx) Commit() error {
	n, fail := t.p.enter("tx.Commit", true)
	if fail {
		// a failed commit makes nothing durable
		_ = t.WriteTx.Rollback()
		return ErrInjected
	}
	err := t.WriteTx.Commit()
	t.p.leave(n, "tx.Commit")
	return err
}

func (t *wtx) Rollback() error {
	n, _ := t.p.enter("tx.Rollback", false)
	err := t.WriteTx.Rollback()
	t.p.leave(n, "tx.Rollback")
	return err
}

type coll struct {
	anystore.Collection
	p *Plan
}

func (c *coll) w(name string, f func() error) error {
	n, fail := c.p.enter("coll("+c.Name()+")."+name, true)
	if fail {
		return ErrInjected
	}
	err := f()
	c.p.leave(n, name)
	return err
}

func (c *coll) Insert(ctx context.Context, docs ...*anyenc.Value) error {
	return c.w("Insert", func() error { return c.Collection.Insert(ctx, docs...) })
}
func (c *coll) UpdateOne(ctx context.Context, doc *anyenc.Value) error {
	return c.w("UpdateOne", func() error { return c.Collection.UpdateOne(ctx, doc) })
}
func (c *coll) UpsertOne(ctx context.Context, doc *anyenc.Value) error {
	return c.w("UpsertOne", func() error { return c.Collection.UpsertOne(ctx, doc) })
}
func (c *coll) UpdateId(ctx context.Context, id any, mod query.Modifier) (res anystore.ModifyResult, err error) {
	err = c.w("UpdateId", func() (e error) { res, e = c.Collection.UpdateId(ctx, id, mod); return })
	return
}
func (c *coll) UpsertId(ctx context.Context, id any, mod query.Modifier) (res anystore.ModifyResult, err error) {
	err = c.w("UpsertId", func() (e error) { res, e = c.Collection.UpsertId(ctx, id, mod); return })
	return
}
func (c *coll) DeleteId(ctx context.Context, id any) error {
	return c.w("DeleteId", func() error { return c.Collection.DeleteId(ctx, id) })
}
func (c *coll) CreateIndex(ctx context.Context, info ...anystore.IndexInfo) error {
	return c.w("CreateIndex", func() error { return c.Collection.CreateIndex(ctx, info...) })
}
func (c *coll) EnsureIndex(ctx context.Context, info ...anystore.IndexInfo) error {
	return c.w("EnsureIndex", func() error { return c.Collection.EnsureIndex(ctx, info...) })
}
func (c *coll) Drop(ctx context.Context) error {
	return c.w("Drop", func() error { return c.Collection.Drop(ctx) })
}

func (c *coll) FindId(ctx context.Context, id any) (anystore.Doc, error) {
	n, fail := c.p.enter("coll("+c.Name()+").FindId", false)
	if fail {
		return nil, ErrInjected
	}
	d, err := c.Collection.FindId(ctx, id)
	c.p.leave(n, "FindId")
	return d, err
}

func (c *coll) FindIdWithParser(ctx context.Context, p *anyenc.Parser, id any) (anystore.Doc, error) {
	n, fail := c.p.enter("coll("+c.Name()+").FindId", false)
	if fail {
		return nil, ErrInjected
	}
	d, err := c.Collection.FindIdWithParser(ctx, p, id)
	c.p.leave(n, "FindId")
	return d, err
}

func (c *coll) Find(filter any) anystore.Query {
	// callers may pass a Query built earlier as the filter (the ACL storage does): unwrap ours
	if w, ok := filter.(*qry); ok {
		filter = w.Query
	}
	return &qry{Query: c.Collection.Find(filter), p: c.p, coll: c.Name()}
}

func (c *coll) WriteTx(ctx context.Context) (anystore.WriteTx, error) {
	n, fail := c.p.enter("coll.WriteTx", true)
	if fail {
		return nil, ErrInjected
	}
	t, err := c.Collection.WriteTx(ctx)
	c.p.leave(n, "coll.WriteTx")
	if err != nil {
		return nil, err
	}
	return &wtx{WriteTx: t, p: c.p}, nil
}

type qry struct {
	anystore.Query
	p    *Plan
	coll string
}

func (q *qry) wrap(n anystore.Query) anystore.Query { return &qry{Query: n, p: q.p, coll: q.coll} }

func (q *qry) Limit(l uint) anystore.Query  { return q.wrap(q.Query.Limit(l)) }
func (q *qry) Offset(o uint) anystore.Query { return q.wrap(q.Query.Offset(o)) }
func (q *qry) Sort(s ...any) anystore.Query { return q.wrap(q.Query.Sort(s...)) }
func (q *qry) IndexHint(h ...anystore.IndexHint) anystore.Query {
	return q.wrap(q.Query.IndexHint(h...))
}

func (q *qry) Iter(ctx context.Context) (anystore.Iterator, error) {
	n, fail := q.p.enter("query("+q.coll+").Iter", false)
	if fail {
		return nil, ErrInjected
	}
	it, err := q.Query.Iter(ctx)
	q.p.leave(n, "Iter")
	return it, err
}

func (q *qry) Count(ctx context.Context) (int, error) {
	n, fail := q.p.enter("query("+q.coll+").Count", false)
	if fail {
		return 0, ErrInjected
	}
	c, err := q.Query.Count(ctx)
	q.p.leave(n, "Count")
	return c, err
}

func (q *qry) Delete(ctx context.Context) (anystore.ModifyResult, error) {
	n, fail := q.p.enter("query("+q.coll+").Delete", true)
	if fail {
		return anystore.ModifyResult{}, ErrInjected
	}
	r, err := q.Query.Delete(ctx)
	q.p.leave(n, "Delete")
	return r, err
}

func (q *qry) Update(ctx context.Context, modifier any) (anystore.ModifyResult, error) {
	n, fail := q.p.enter("query("+q.coll+").Update", true)
	if fail {
		return anystore.ModifyResult{}, ErrInjected
	}
	r, err := q.Query.Update(ctx, modifier)
	q.p.leave(n, "Update")
	return r, err
}

var _ = fmt.Sprint
