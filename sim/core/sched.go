package core

import (
	"fmt"
	"runtime"
	"sort"
	"strconv"
	"sync"
	"sync/atomic"
	"testing/synctest"
	"time"
)

// Sched is the task scheduler for goroutine engines. Real goroutines run the code under test, but
// each is parked at every harness-owned blocking point and at every simhook.Yield call site, and the
// seeded scheduler releases exactly one parked task at a time (chosen from the name-sorted list).
// Quiescence is detected with synctest.Wait. A yield never happens with a lock held (hook rule).
type Sched struct {
	r      *Run
	mu     sync.Mutex
	tasks  map[uint64]*Task // by goroutine id
	parked map[string]*parkEntry
	live   int
	anon   int
	Steps  int
	// Off disables parking (Park returns immediately): used by engines during setup/teardown.
	Off atomic.Bool
}

type Task struct {
	Name string
	Done bool
	s    *Sched
}

type parkEntry struct {
	name  string
	point string
	ch    chan struct{}
}

func NewSched(r *Run) *Sched {
	return &Sched{r: r, tasks: map[uint64]*Task{}, parked: map[string]*parkEntry{}}
}

func goid() uint64 {
	var buf [64]byte
	n := runtime.Stack(buf[:], false)
	// "goroutine 123 ["
	b := buf[:n]
	i := 10
	j := i
	for j < len(b) && b[j] >= '0' && b[j] <= '9' {
		j++
	}
	id, _ := strconv.ParseUint(string(b[i:j]), 10, 64)
	return id
}

// Goid returns the id of the calling goroutine.
func Goid() uint64 { return goid() }

// Go starts a task; it parks immediately at point "start" and runs only when granted.
func (s *Sched) Go(name string, fn func()) *Task {
	t := &Task{Name: name, s: s}
	s.mu.Lock()
	s.live++
	s.mu.Unlock()
	go func() {
		id := goid()
		s.mu.Lock()
		s.tasks[id] = t
		s.mu.Unlock()
		defer func() {
			s.mu.Lock()
			delete(s.tasks, id)
			t.Done = true
			s.live--
			s.mu.Unlock()
		}()
		defer s.r.Recover("task")
		s.Park("start")
		fn()
	}()
	return t
}

// Adopt names the calling goroutine (for background goroutines created by the code under test).
func (s *Sched) Adopt(name string) {
	id := goid()
	s.mu.Lock()
	s.tasks[id] = &Task{Name: name, s: s}
	s.mu.Unlock()
}

// CurrentName returns the task name of the calling goroutine ("" if unknown).
func (s *Sched) CurrentName() string {
	id := goid()
	s.mu.Lock()
	defer s.mu.Unlock()
	if t := s.tasks[id]; t != nil {
		return t.Name
	}
	return ""
}

// Park suspends the calling goroutine until the scheduler grants it.
func (s *Sched) Park(point string) {
	if s.Off.Load() || s.r.Aborted() {
		return
	}
	id := goid()
	s.mu.Lock()
	t := s.tasks[id]
	var name string
	if t != nil {
		name = t.Name
	} else {
		// unknown goroutine (created by code under test): identified by its park point; two
		// anonymous goroutines at the same point get a counter suffix in arrival order
		name = "~" + point
	}
	key := name
	for k := 2; ; k++ {
		if _, dup := s.parked[key]; !dup {
			break
		}
		key = name + "#" + strconv.Itoa(k)
	}
	e := &parkEntry{name: key, point: point, ch: make(chan struct{})}
	s.parked[key] = e
	s.mu.Unlock()
	<-e.ch
}

// Settle waits for quiescence after the event loop itself woke tasks (a cancelled context, a clock jump) and
// orders what they did before what the event loop does next, for the race detector too.
func (s *Sched) Settle() {
	synctest.Wait()
	s.mu.Lock()
	s.mu.Unlock() //nolint:staticcheck
}

// Parked returns the sorted names of parked tasks (after quiescence).
func (s *Sched) Parked() []string {
	synctest.Wait()
	s.mu.Lock()
	defer s.mu.Unlock()
	names := make([]string, 0, len(s.parked))
	for k := range s.parked {
		names = append(names, k)
	}
	sort.Strings(names)
	return names
}

// ParkedPoint returns the point at which the named task is parked ("" and false when it is not parked).
func (s *Sched) ParkedPoint(name string) (string, bool) {
	s.mu.Lock()
	defer s.mu.Unlock()
	if e := s.parked[name]; e != nil {
		return e.point, true
	}
	return "", false
}

func (s *Sched) Live() int {
	s.mu.Lock()
	defer s.mu.Unlock()
	return s.live
}

// Step waits for quiescence and releases one parked task chosen by the run's choice source.
// It returns the granted task name and point, or "" when nothing is parked.
func (s *Sched) Step() (string, string) {
	names := s.Parked()
	if len(names) == 0 {
		return "", ""
	}
	i := s.r.Src.Choose("sched", len(names))
	return s.Grant(names[i])
}

// Grant releases a specific parked task and waits until the system is quiescent again.
func (s *Sched) Grant(name string) (string, string) {
	s.mu.Lock()
	e := s.parked[name]
	delete(s.parked, name)
	s.mu.Unlock()
	if e == nil {
		return "", ""
	}
	s.Steps++
	close(e.ch)
	synctest.Wait()
	// quiescence is not a synchronisation the race detector knows about: taking the scheduler's lock, which
	// every task took when it parked or ended, orders their accesses to harness state before the event loop's
	s.mu.Lock()
	s.mu.Unlock() //nolint:staticcheck
	return e.name, e.point
}

// ReleaseAll turns parking off and releases everything (teardown / aborted runs).
func (s *Sched) ReleaseAll() {
	s.mu.Lock()
	s.Off.Store(true)
	es := make([]*parkEntry, 0, len(s.parked))
	for k, e := range s.parked {
		es = append(es, e)
		delete(s.parked, k)
	}
	s.mu.Unlock()
	for _, e := range es {
		close(e.ch)
	}
}

// RunUntilIdle steps until no task is parked; when nothing is parked but tasks are alive it advances
// the fake clock by tick (timers, deadlines) up to maxIdle times in a row; returns false if tasks are
// still alive and durably blocked after that (a hang).
func (s *Sched) RunUntilIdle(maxSteps int, tick time.Duration, maxIdle int) bool {
	idle := 0
	for n := 0; n < maxSteps; n++ {
		if s.r.Aborted() {
			return true
		}
		name, _ := s.Step()
		if name != "" {
			idle = 0
			continue
		}
		if s.Live() == 0 {
			return true
		}
		idle++
		if idle > maxIdle {
			return false
		}
		time.Sleep(tick)
	}
	return s.Live() == 0
}

func (s *Sched) String() string {
	s.mu.Lock()
	defer s.mu.Unlock()
	return fmt.Sprintf("live=%d parked=%d", s.live, len(s.parked))
}
