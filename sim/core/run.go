package core

import (
	"fmt"
	"sort"
	"strings"
	"time"
)

// Src is the single source of every choice of a run. In record mode values come from the run's PRNG
// and are appended to the trace; in replay mode they are read back from a trace (exhausted or out of
// range => 0), which is what the minimiser shrinks.
type Src struct {
	rng    *Rng
	replay bool
	in     []int
	pos    int
	Rec    []int
	Labels []string // parallel to Rec (only kept when KeepLabels)
	Keep   bool
	// SchedHash accumulates scheduling decisions (labels starting with "sched") for the interleaving measure.
	SchedHash uint64
}

func NewSrc(seed uint64) *Src { return &Src{rng: NewRng(seed)} }

func NewReplaySrc(trace []int) *Src { return &Src{replay: true, in: trace} }

// MaxChoices bounds the trace length of one run: a generator that does not terminate under replay
// (exhausted trace reads as zeros) must abort instead of eating memory.
const MaxChoices = 3_000_000

type abortPanic struct{ msg string }

func (s *Src) guard() {
	if len(s.Rec) > MaxChoices {
		panic(abortPanic{"choice budget exceeded (non-terminating generator?)"})
	}
}

// Choose returns a value in [0,n).
func (s *Src) Choose(label string, n int) int {
	s.guard()
	if n <= 0 {
		n = 1
	}
	var v int
	if s.replay {
		if s.pos < len(s.in) {
			v = s.in[s.pos]
		}
		s.pos++
		if v < 0 || v >= n {
			v = 0
		}
	} else {
		v = s.rng.Intn(n)
	}
	s.Rec = append(s.Rec, v)
	if s.Keep {
		s.Labels = append(s.Labels, label)
	}
	if strings.HasPrefix(label, "sched") {
		s.SchedHash = SplitMix(s.SchedHash ^ uint64(v+1)*0x100000001b3 ^ uint64(n)<<32)
	}
	return v
}

// Flip returns true with probability p (recorded as 0/1 so that 0 = "no").
func (s *Src) Flip(label string, p float64) bool {
	s.guard()
	if s.replay {
		return s.Choose(label, 2) == 1
	}
	v := 0
	if s.rng.Float64() < p {
		v = 1
	}
	s.Rec = append(s.Rec, v)
	if s.Keep {
		s.Labels = append(s.Labels, label)
	}
	return v == 1
}

// Weighted picks an index with probability proportional to w[i]; entries with weight 0 are never
// picked in record mode; in replay a recorded index with weight 0 falls back to the first non-zero.
func (s *Src) Weighted(label string, w []int) int {
	s.guard()
	total := 0
	first := -1
	for i, x := range w {
		if x > 0 {
			total += x
			if first < 0 {
				first = i
			}
		}
	}
	if first < 0 {
		return -1
	}
	var v int
	if s.replay {
		if s.pos < len(s.in) {
			v = s.in[s.pos]
		}
		s.pos++
		if v < 0 || v >= len(w) || w[v] <= 0 {
			v = first
		}
	} else {
		x := s.rng.Intn(total)
		for i, wi := range w {
			if wi <= 0 {
				continue
			}
			if x < wi {
				v = i
				break
			}
			x -= wi
		}
	}
	s.Rec = append(s.Rec, v)
	if s.Keep {
		s.Labels = append(s.Labels, label)
	}
	if strings.HasPrefix(label, "sched") {
		s.SchedHash = SplitMix(s.SchedHash ^ uint64(v+1)*0x100000001b3)
	}
	return v
}

// Range returns lo + Choose(hi-lo+1).
func (s *Src) Range(label string, lo, hi int) int {
	if hi < lo {
		hi = lo
	}
	return lo + s.Choose(label, hi-lo+1)
}

// Violation is a property violation found by an oracle.
type Violation struct {
	Property string `json:"property"`
	Oracle   string `json:"oracle"` // oracle id: the violation class kept constant by the minimiser
	Sig      string `json:"sig"`    // signature used to match known findings (oracle + stable detail)
	Detail   string `json:"detail"`
}

func (v *Violation) String() string {
	return fmt.Sprintf("property=%s oracle=%s sig=%s: %s", v.Property, v.Oracle, v.Sig, v.Detail)
}

type violationPanic struct{ v *Violation }

// Run is the context of one simulated execution.
type Run struct {
	Property string
	Seed     uint64
	Tier     string
	Src      *Src
	Crypto   *Rng // stream behind crypto/rand.Reader
	Cfg      map[string]any
	Log      []string
	Kinds    []string // event kinds, for the distinctness measure
	Faults   map[string]int
	Probes   map[string]int
	Counters map[string]int
	States   map[uint64]struct{}
	Viol     *Violation
	Known    map[string]bool // signatures of known findings: recorded, not fatal
	KnownHit map[string]int
	SimStart time.Time
	SimNS    int64
	Steps    int
	Nontriv  bool
	KeepLog  bool
	aborted  bool
	// Drain is how long (fake time) Exec sleeps after the run body so background timers fire.
	Drain      time.Duration
	InfraAbort string
	// DeadlockOK: goroutines left blocked at the end of the bubble are expected (engine cleans up otherwise).
	DeadlockOK bool
}

func NewRun(prop string, seed uint64, src *Src) *Run {
	return &Run{
		Property: prop, Seed: seed, Src: src,
		Crypto: NewRng(Mix(seed, "crypto")),
		Cfg:    map[string]any{}, Faults: map[string]int{}, Probes: map[string]int{},
		Counters: map[string]int{}, States: map[uint64]struct{}{}, KnownHit: map[string]int{},
		Drain: 2 * time.Minute,
	}
}

// Event records one event: kind feeds the distinctness hash, the formatted text the event log.
func (r *Run) Event(kind string, format string, a ...any) {
	r.Steps++
	r.Kinds = append(r.Kinds, kind)
	if r.KeepLog || len(r.Log) < 4000 {
		if len(a) == 0 {
			r.Log = append(r.Log, kind+" "+format)
		} else {
			r.Log = append(r.Log, kind+" "+fmt.Sprintf(format, a...))
		}
	}
}

func (r *Run) Fault(kind string)      { r.Faults[kind]++ }
func (r *Run) Probe(name string)      { r.Probes[name]++ }
func (r *Run) Count(name string)      { r.Counters[name]++ }
func (r *Run) State(h uint64)         { r.States[h] = struct{}{} }
func (r *Run) SetCfg(k string, v any) { r.Cfg[k] = v }

// Fail reports a violation. sigDetail should be stable for the same defect (call site / input class),
// never contain ids or seeds. Known findings are counted and the run is abandoned quietly; an unknown
// violation is recorded. Either way the run unwinds by panic (recovered by Exec / task wrappers).
func (r *Run) Fail(oracle, sigDetail, format string, a ...any) {
	sig := oracle
	if sigDetail != "" {
		sig = oracle + ":" + sigDetail
	}
	v := &Violation{Property: r.Property, Oracle: oracle, Sig: sig, Detail: fmt.Sprintf(format, a...)}
	if r.Known[sig] {
		r.KnownHit[sig]++
		r.aborted = true
		panic(violationPanic{nil})
	}
	if r.Viol == nil {
		r.Viol = v
	}
	panic(violationPanic{v})
}

// FailNoPanic records a violation without unwinding (for use from places where unwinding is unsafe).
func (r *Run) FailNoPanic(oracle, sigDetail, format string, a ...any) {
	sig := oracle
	if sigDetail != "" {
		sig = oracle + ":" + sigDetail
	}
	if r.Known[sig] {
		r.KnownHit[sig]++
		r.aborted = true
		return
	}
	if r.Viol == nil {
		r.Viol = &Violation{Property: r.Property, Oracle: oracle, Sig: sig, Detail: fmt.Sprintf(format, a...)}
	}
}

func (r *Run) Aborted() bool { return r.aborted || r.Viol != nil }

// Recover is deferred by anything that runs engine code: it swallows violation unwinds and converts
// any other panic into a violation of oracle "panic" (a panic in code under test is a violation for
// every property here; harness bugs surface the same way and are then fixed in the harness).
func (r *Run) Recover(where string) {
	if p := recover(); p != nil {
		if _, ok := p.(violationPanic); ok {
			return
		}
		if a, ok := p.(abortPanic); ok {
			r.aborted = true
			r.InfraAbort = a.msg
			return
		}
		st := shortStack()
		r.FailNoPanic("panic", where+":"+panicSite(st), "panic in %s: %v\n%s", where, p, st)
	}
}

func SortedKeys[V any](m map[string]V) []string {
	ks := make([]string, 0, len(m))
	for k := range m {
		ks = append(ks, k)
	}
	sort.Strings(ks)
	return ks
}
