package core

import (
	"encoding/json"
	"fmt"
	"os"
	"path/filepath"
	"sort"
	"strconv"
	"strings"
	"testing"
	"time"
)

// PropFn executes one simulated run of a property's check.
type PropFn func(r *Run)

// ReplayFile is the on-disk form of a failing (or sample) execution.
type ReplayFile struct {
	Property  string         `json:"property"`
	Engine    string         `json:"engine"`
	Seed      uint64         `json:"seed"`
	Tier      string         `json:"tier"`
	Trace     []int          `json:"trace"`
	Violation *Violation     `json:"violation,omitempty"`
	Cfg       map[string]any `json:"cfg,omitempty"`
	Log       []string       `json:"log,omitempty"`
	Minimised bool           `json:"minimised"`
	Flaky     bool           `json:"flaky,omitempty"` // the code under test is itself nondeterministic: reproduces within a few executions of the trace, not every time
	Crash     bool           `json:"crash,omitempty"` // the run killed the process (fatal runtime error): replay = re-execute the seed
	RawLen    int            `json:"raw_trace_len,omitempty"`
	RepoRev   string         `json:"repo_rev,omitempty"`
}

type Sample struct {
	Seed   uint64         `json:"seed"`
	Cfg    map[string]any `json:"cfg,omitempty"`
	Faults map[string]int `json:"faults,omitempty"`
	Steps  int            `json:"steps"`
	Log    []string       `json:"log"`
}

// WorkerStats is what one worker process reports to the driver.
type WorkerStats struct {
	Property      string         `json:"property"`
	Worker        int            `json:"worker"`
	Runs          int            `json:"runs"`
	NontrivRuns   int            `json:"nontrivial_runs"`
	Hashes        []string       `json:"hashes"`        // distinct event-kind-sequence hashes of non-trivial runs
	Interleavings []string       `json:"interleavings"` // distinct scheduler-decision hashes
	States        []string       `json:"states"`        // distinct abstract state hashes
	Faults        map[string]int `json:"faults"`
	Probes        map[string]int `json:"probes"`
	Counters      map[string]int `json:"counters"`
	KnownHits     map[string]int `json:"known_hits"`
	SimNS         int64          `json:"sim_ns"`
	Steps         int64          `json:"steps"`
	WallS         float64        `json:"wall_s"`
	Samples       []Sample       `json:"samples"`
	ViolationFile string         `json:"violation_file,omitempty"`
	Violation     *Violation     `json:"violation,omitempty"`
	FirstSeed     uint64         `json:"first_seed"`
	LastIndex     int            `json:"last_index"`
}

const maxSetSize = 400000

func envInt(k string, def int) int {
	if v := os.Getenv(k); v != "" {
		if n, err := strconv.Atoi(v); err == nil {
			return n
		}
	}
	return def
}

func hex(u uint64) string { return strconv.FormatUint(u, 16) }

func knownSet() map[string]bool {
	m := map[string]bool{}
	for _, s := range strings.Split(os.Getenv("VERIF_KNOWN"), "|") {
		if s != "" {
			m[s] = true
		}
	}
	return m
}

// RunSeed is the per-run seed: a pure function of (VERIF_SEED, property, run index).
func RunSeed(base uint64, prop string, idx int) uint64 {
	return Mix(base, prop, strconv.Itoa(idx))
}

// Main is called from each engine's TestMain-style entry test. Mode by VERIF_MODE:
// worker (default), replay, minimise, log (print event log for one seed; determinism self-test).
func Main(t *testing.T, engine string, props map[string]PropFn) {
	prop := os.Getenv("VERIF_PROP")
	if prop == "" {
		t.Skip("VERIF_PROP not set (run through /verif/check)")
	}
	fn, ok := props[prop]
	if !ok {
		fmt.Printf("INFRA unknown property %s for engine %s\n", prop, engine)
		os.Exit(2)
	}
	startHangWatch()
	switch os.Getenv("VERIF_MODE") {
	case "", "worker":
		worker(t, engine, prop, fn)
	case "replay":
		replay(t, engine, prop, fn)
	case "minimise":
		minimiseMode(t, engine, prop, fn)
	case "log":
		logMode(t, prop, fn)
	default:
		fmt.Println("INFRA unknown VERIF_MODE")
		os.Exit(2)
	}
}

func newRecordRun(prop string, seed uint64, tier string, known map[string]bool) *Run {
	r := NewRun(prop, seed, NewSrc(Mix(seed, "choices")))
	r.Tier = tier
	r.Known = known
	return r
}

func worker(t *testing.T, engine, prop string, fn PropFn) {
	base := uint64(envInt("VERIF_SEED", 1))
	w := envInt("VERIF_WORKER", 0)
	nw := envInt("VERIF_WORKERS", 1)
	budget := time.Duration(envInt("VERIF_BUDGET_S", 30)) * time.Second
	maxRuns := envInt("VERIF_MAX_RUNS", 0)
	out := os.Getenv("VERIF_OUT")
	tier := os.Getenv("VERIF_TIER")
	if tier == "" {
		tier = "quick"
	}
	known := knownSet()
	st := &WorkerStats{Property: prop, Worker: w, Faults: map[string]int{}, Probes: map[string]int{},
		Counters: map[string]int{}, KnownHits: map[string]int{}}
	hashes := map[uint64]struct{}{}
	inter := map[uint64]struct{}{}
	states := map[uint64]struct{}{}
	start := time.Now()
	stopFile := filepath.Join(out, "STOP")
	for idx := w; ; idx += nw {
		if time.Since(start) > budget {
			break
		}
		if maxRuns > 0 && st.Runs >= maxRuns {
			break
		}
		if st.Runs%16 == 0 {
			if _, err := os.Stat(stopFile); err == nil {
				break
			}
		}
		seed := RunSeed(base, prop, idx)
		if st.Runs == 0 {
			st.FirstSeed = seed
		}
		// the seed in flight: if the Go runtime kills the process (stack overflow, concurrent map
		// write, ...) the driver still knows which execution did it
		_ = os.WriteFile(filepath.Join(out, fmt.Sprintf("cur-w%d", w)), []byte(strconv.FormatUint(seed, 10)+" "+strconv.Itoa(idx)), 0o644)
		r := newRecordRun(prop, seed, tier, known)
		Exec(t, r, fn)
		if r.InfraAbort != "" {
			fmt.Printf("INFRA run aborted: %s (seed %d)\n", r.InfraAbort, seed)
			os.Exit(2)
		}
		st.Runs++
		st.LastIndex = idx
		st.SimNS += r.SimNS
		st.Steps += int64(r.Steps)
		for k, v := range r.Faults {
			st.Faults[k] += v
		}
		for k, v := range r.Probes {
			st.Probes[k] += v
		}
		for k, v := range r.Counters {
			st.Counters[k] += v
		}
		for k, v := range r.KnownHit {
			st.KnownHits[k] += v
		}
		if r.Nontriv && !r.aborted {
			st.NontrivRuns++
			if len(hashes) < maxSetSize {
				hashes[HashStrings(r.Kinds)] = struct{}{}
			}
		}
		if len(inter) < maxSetSize {
			inter[SplitMix(r.Src.SchedHash^HashStrings(r.Kinds))] = struct{}{}
		}
		for h := range r.States {
			if len(states) < maxSetSize {
				states[h] = struct{}{}
			}
		}
		if len(st.Samples) < 2 && r.Nontriv && r.Viol == nil && !r.aborted {
			lg := r.Log
			if len(lg) > 60 {
				lg = append(append([]string{}, lg[:45]...), fmt.Sprintf("… (%d more events)", len(r.Log)-45))
			}
			st.Samples = append(st.Samples, Sample{Seed: seed, Cfg: r.Cfg, Faults: r.Faults, Steps: r.Steps, Log: lg})
		}
		if r.Viol != nil {
			rf := &ReplayFile{Property: prop, Engine: engine, Seed: seed, Tier: tier, Trace: r.Src.Rec,
				Violation: r.Viol, Cfg: r.Cfg, Log: tail(r.Log, 400), RawLen: len(r.Src.Rec)}
			p := filepath.Join(out, fmt.Sprintf("raw-%s-w%d-%s.json", prop, w, hex(seed)))
			writeJSON(p, rf)
			st.ViolationFile = p
			st.Violation = r.Viol
			_ = os.WriteFile(stopFile, []byte("violation\n"), 0o644)
			break
		}
	}
	st.WallS = time.Since(start).Seconds()
	st.Hashes = setToList(hashes)
	st.Interleavings = setToList(inter)
	st.States = setToList(states)
	writeJSON(filepath.Join(out, fmt.Sprintf("worker-%d.json", w)), st)
}

func tail(s []string, n int) []string {
	if len(s) > n {
		return s[len(s)-n:]
	}
	return s
}

func setToList(m map[uint64]struct{}) []string {
	l := make([]string, 0, len(m))
	for k := range m {
		l = append(l, hex(k))
	}
	sort.Strings(l)
	return l
}

func writeJSON(path string, v any) {
	b, err := json.MarshalIndent(v, "", " ")
	if err != nil {
		fmt.Println("INFRA marshal:", err)
		os.Exit(2)
	}
	if err := os.WriteFile(path, b, 0o644); err != nil {
		fmt.Println("INFRA write:", err)
		os.Exit(2)
	}
}

func loadReplay(path string) *ReplayFile {
	b, err := os.ReadFile(path)
	if err != nil {
		fmt.Println("INFRA read replay:", err)
		os.Exit(2)
	}
	rf := &ReplayFile{}
	if err := json.Unmarshal(b, rf); err != nil {
		fmt.Println("INFRA parse replay:", err)
		os.Exit(2)
	}
	return rf
}

func replayRun(t *testing.T, rf *ReplayFile, trace []int, fn PropFn, keep bool) *Run {
	src := NewReplaySrc(trace)
	src.Keep = keep
	r := NewRun(rf.Property, rf.Seed, src)
	r.Tier = rf.Tier
	// while shrinking, a candidate that runs into a listed finding is not the violation being minimised (plain
	// replay of a finding's own file must still show it: the driver passes the list only to the minimiser)
	r.Known = replayKnown
	r.KeepLog = keep
	Exec(t, r, fn)
	return r
}

// replayKnown: signatures of listed findings, set by the minimiser only.
var replayKnown map[string]bool

// replay re-executes a replay file; prints REPLAY-VIOLATION oracle=<..> sig=<..> or REPLAY-CLEAN.
func replay(t *testing.T, engine, prop string, fn PropFn) {
	rf := loadReplay(os.Getenv("VERIF_REPLAY"))
	var r *Run
	if rf.Crash {
		// the original process was killed by the Go runtime: re-execute the seed (record mode);
		// reproducing means dying again, which the driver observes
		r = newRecordRun(prop, rf.Seed, rf.Tier, nil)
		r.KeepLog = true
		Exec(t, r, fn)
	} else {
		n := 1
		if rf.Flaky {
			n = 20
		}
		var any *Run
		for a := 0; a < n; a++ {
			r = replayRun(t, rf, rf.Trace, fn, true)
			if r.Viol != nil {
				any = r
				if rf.Violation == nil || r.Viol.Oracle == rf.Violation.Oracle {
					break
				}
			}
		}
		if r.Viol == nil && any != nil {
			r = any
		}
	}
	if os.Getenv("VERIF_SHOWLOG") != "" {
		for _, l := range r.Log {
			fmt.Println("  |", l)
		}
	}
	if r.Viol != nil {
		fmt.Printf("REPLAY-VIOLATION property=%s oracle=%s sig=%s\n%s\n", prop, r.Viol.Oracle, r.Viol.Sig, r.Viol.Detail)
	} else {
		fmt.Printf("REPLAY-CLEAN property=%s\n", prop)
	}
}

func logMode(t *testing.T, prop string, fn PropFn) {
	base := uint64(envInt("VERIF_SEED", 1))
	n := envInt("VERIF_MAX_RUNS", 1)
	for idx := 0; idx < n; idx++ {
		seed := RunSeed(base, prop, idx)
		r := newRecordRun(prop, seed, os.Getenv("VERIF_TIER"), knownSet())
		r.KeepLog = true
		Exec(t, r, fn)
		fmt.Printf("RUN idx=%d seed=%d steps=%d trace=%d loghash=%s tracehash=%s viol=%v\n", idx, seed, r.Steps, len(r.Src.Rec),
			hex(HashStrings(r.Log)), hex(hashInts(r.Src.Rec)), r.Viol != nil)
		if os.Getenv("VERIF_SHOWLOG") != "" {
			for _, l := range r.Log {
				fmt.Println("  |", l)
			}
		}
		if r.Viol != nil {
			fmt.Println("  VIOL", r.Viol.String())
		}
	}
}

func hashInts(v []int) uint64 {
	h := uint64(1469598103934665603)
	for _, x := range v {
		h = SplitMix(h ^ uint64(x))
	}
	return h
}
