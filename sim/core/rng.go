// Package core is the simulator core shared by every engine: one seed decides everything.
package core

import (
	"encoding/binary"
	"hash/fnv"
)

// SplitMix64 step.
func SplitMix(x uint64) uint64 {
	x += 0x9e3779b97f4a7c15
	z := x
	z = (z ^ (z >> 30)) * 0xbf58476d1ce4e5b9
	z = (z ^ (z >> 27)) * 0x94d049bb133111eb
	return z ^ (z >> 31)
}

// Mix derives a sub-seed from a seed and labels.
func Mix(seed uint64, parts ...string) uint64 {
	h := fnv.New64a()
	var b [8]byte
	binary.LittleEndian.PutUint64(b[:], seed)
	h.Write(b[:])
	for _, p := range parts {
		h.Write([]byte{0})
		h.Write([]byte(p))
	}
	return SplitMix(h.Sum64())
}

// Rng is a small deterministic PRNG (splitmix64 stream).
type Rng struct{ s uint64 }

func NewRng(seed uint64) *Rng { return &Rng{s: seed} }

func (r *Rng) Uint64() uint64 {
	r.s += 0x9e3779b97f4a7c15
	z := r.s
	z = (z ^ (z >> 30)) * 0xbf58476d1ce4e5b9
	z = (z ^ (z >> 27)) * 0x94d049bb133111eb
	return z ^ (z >> 31)
}

func (r *Rng) Intn(n int) int {
	if n <= 1 {
		return 0
	}
	return int(r.Uint64() % uint64(n))
}

func (r *Rng) Float64() float64 { return float64(r.Uint64()>>11) / (1 << 53) }

// Read implements io.Reader: the stream that replaces crypto/rand.Reader inside a run.
//
// One-byte reads do not advance the stream: Go's key generators (ecdh/X25519, ecdsa, rsa) call
// randutil.MaybeReadByte, which reads one byte from the source or not, chosen by the runtime's random select,
// precisely to defeat reproducible key generation. Answering those reads with a constant keeps everything
// after them (ephemeral keys, nonces, ids) a function of the seed.
func (r *Rng) Read(p []byte) (int, error) {
	if len(p) == 1 {
		p[0] = 0
		return 1, nil
	}
	for i := 0; i < len(p); {
		v := r.Uint64()
		for k := 0; k < 8 && i < len(p); k++ {
			p[i] = byte(v)
			v >>= 8
			i++
		}
	}
	return len(p), nil
}

// HashStrings is an order-sensitive 64-bit hash of a string sequence.
func HashStrings(ss []string) uint64 {
	h := fnv.New64a()
	for _, s := range ss {
		h.Write([]byte(s))
		h.Write([]byte{0})
	}
	return h.Sum64()
}
