package core

import (
	"fmt"
	"os"
	"testing"
	"time"
)

func trimZeros(t []int) []int {
	n := len(t)
	for n > 0 && t[n-1] == 0 {
		n--
	}
	return t[:n]
}

// minimiseMode shrinks the choice trace of a raw replay file while the same violation class
// (oracle id) recurs, then writes the minimised replay file to VERIF_MIN_OUT.
func minimiseMode(t *testing.T, engine, prop string, fn PropFn) {
	rf := loadReplay(os.Getenv("VERIF_REPLAY"))
	outPath := os.Getenv("VERIF_MIN_OUT")
	budget := time.Duration(envInt("VERIF_MIN_BUDGET_S", 60)) * time.Second
	deadline := time.Now().Add(budget)
	if rf.Violation == nil {
		fmt.Println("INFRA replay file has no violation")
		os.Exit(2)
	}
	oracle := rf.Violation.Oracle
	replayKnown = knownSet()
	delete(replayKnown, rf.Violation.Sig)
	tries := 0
	var lastGood *Run
	// attempts > 1 only when the raw trace does not reproduce at the first try: the code under test may
	// itself be nondeterministic (e.g. it ranges over a Go map); such a violation is kept if it shows up
	// again within a few executions of the same trace, and the replay file says so
	attempts := 1
	test := func(tr []int) ([]int, bool) {
		for a := 0; a < attempts; a++ {
			tries++
			r := replayRun(t, rf, tr, fn, false)
			if r.Viol != nil && r.Viol.Oracle == oracle {
				lastGood = r
				return trimZeros(append([]int{}, r.Src.Rec...)), true
			}
		}
		return nil, false
	}
	cur, ok := test(rf.Trace)
	if !ok {
		attempts = 6
		cur, ok = test(rf.Trace)
	}
	if !ok {
		fmt.Println("INFRA raw trace does not reproduce the violation (nondeterminism?)")
		os.Exit(2)
	}
	timeUp := func() bool { return time.Now().After(deadline) }
	// 1. shortest failing prefix (exhausted trace reads as zeros)
	lo, hi := 0, len(cur)
	for lo < hi && !timeUp() {
		mid := (lo + hi) / 2
		if c, ok := test(cur[:mid]); ok {
			cur = c
			if len(cur) < hi {
				hi = len(cur)
			}
			if mid < hi {
				hi = mid
			}
		} else {
			lo = mid + 1
		}
	}
	better := func(c []int) bool { return len(c) < len(cur) || (len(c) == len(cur) && sum(c) < sum(cur)) }
	changed := true
	for changed && !timeUp() {
		changed = false
		// 2. zero chunks (keeps alignment of the remaining choices)
		for size := len(cur) / 2; size >= 1 && !timeUp(); size /= 2 {
			for i := 0; i+size <= len(cur) && !timeUp(); i += size {
				nz := false
				for _, v := range cur[i : i+size] {
					if v != 0 {
						nz = true
						break
					}
				}
				if !nz {
					continue
				}
				cand := append([]int{}, cur...)
				for k := i; k < i+size; k++ {
					cand[k] = 0
				}
				if c, ok := test(cand); ok && better(c) {
					cur = c
					changed = true
				}
			}
		}
		// 3. ddmin: delete chunks
		for size := len(cur) / 2; size >= 1 && !timeUp(); size /= 2 {
			for i := 0; i+size <= len(cur) && !timeUp(); {
				cand := append(append([]int{}, cur[:i]...), cur[i+size:]...)
				if c, ok := test(cand); ok && better(c) {
					cur = c
					changed = true
				} else {
					i += size
				}
			}
		}
		// 4. halve single values
		for i := 0; i < len(cur) && !timeUp(); i++ {
			if cur[i] > 1 {
				cand := append([]int{}, cur...)
				cand[i] = cur[i] / 2
				if c, ok := test(cand); ok && better(c) {
					cur = c
					changed = true
				}
			}
		}
	}
	// final run with full log
	var fin *Run
	flaky := attempts > 1
	confirm := func(tr []int) bool {
		for a := 0; a < 8; a++ {
			fin = replayRun(t, rf, tr, fn, true)
			if fin.Viol != nil && fin.Viol.Oracle == oracle {
				if a > 0 {
					flaky = true
				}
				return true
			}
		}
		return false
	}
	if !confirm(cur) {
		// shrinking went through an execution that does not recur: keep the trace as found
		cur = trimZeros(append([]int{}, rf.Trace...))
		flaky = true
		if !confirm(cur) {
			if lastGood == nil || lastGood.Viol == nil {
				fmt.Println("INFRA minimised trace does not reproduce")
				os.Exit(2)
			}
			// the violation showed once in this process and not again: the code under test keeps state across
			// executions in a process-wide pool (a buffer that has grown does not grow again). Only a fresh
			// process can repeat it: hand the raw trace to the driver, which replays it in one.
			fin = lastGood
			out := &ReplayFile{Property: prop, Engine: engine, Seed: rf.Seed, Tier: rf.Tier, Trace: cur, Violation: fin.Viol,
				Cfg: fin.Cfg, Log: tail(annotate(fin), 600), Minimised: false, RawLen: rf.RawLen, RepoRev: os.Getenv("VERIF_REPO_REV"), Flaky: true}
			writeJSON(outPath, out)
			fmt.Printf("MINIMISED raw=%d min=%d tries=%d oracle=%s (not minimised: reproduces only once per process)\n", rf.RawLen, len(cur), tries, oracle)
			return
		}
	}
	_ = lastGood
	out := &ReplayFile{Property: prop, Engine: engine, Seed: rf.Seed, Tier: rf.Tier, Trace: cur, Violation: fin.Viol,
		Cfg: fin.Cfg, Log: tail(annotate(fin), 600), Minimised: true, RawLen: rf.RawLen, RepoRev: os.Getenv("VERIF_REPO_REV"), Flaky: flaky}
	writeJSON(outPath, out)
	fmt.Printf("MINIMISED raw=%d min=%d tries=%d oracle=%s\n", rf.RawLen, len(cur), tries, oracle)
}

func annotate(r *Run) []string { return r.Log }

func sum(v []int) int {
	s := 0
	for _, x := range v {
		s += x
	}
	return s
}
