package core

import (
	"sync"

	"github.com/anyproto/any-sync/app/logger"
	"go.uber.org/zap"
	"go.uber.org/zap/zapcore"
)

// fatalCore swallows everything below Fatal and turns a Fatal entry into a panic (the code under
// test would call os.Exit; the simulator reports it as a violation instead).
type fatalCore struct{}

func (fatalCore) Enabled(l zapcore.Level) bool        { return l >= zapcore.FatalLevel }
func (c fatalCore) With([]zapcore.Field) zapcore.Core { return c }
func (c fatalCore) Check(e zapcore.Entry, ce *zapcore.CheckedEntry) *zapcore.CheckedEntry {
	if c.Enabled(e.Level) {
		return ce.AddCore(e, c)
	}
	return ce
}
func (fatalCore) Write(e zapcore.Entry, _ []zapcore.Field) error {
	if e.Level >= zapcore.FatalLevel {
		panic("log.Fatal: " + e.Message)
	}
	return nil
}
func (fatalCore) Sync() error { return nil }

var quietOnce sync.Once

// QuietLogs silences any-sync logging and makes log.Fatal panic. Call once per process.
func QuietLogs() {
	quietOnce.Do(func() {
		logger.SetDefault(zap.New(fatalCore{}))
		logger.SetNamedLevels(nil)
	})
}
