package core

import (
	"fmt"
	"os"
	"runtime"
	"sync/atomic"
	"time"
)

// Hang watch: a call into code under test that never returns (a CPU loop never lets the bubble's fake clock
// advance, so no simulated deadline can catch it) is detected by a goroutine outside the bubble on the real
// clock. The process then dies with a "VERIF-HANG: <label>" line, which the driver classifies like a fatal
// runtime error: a violation replayed from the run's seed.
var (
	hangLabel atomic.Pointer[string]
	hangSince atomic.Int64
	hangTick  atomic.Int64
	hangOn    atomic.Bool
)

// HangLimit is the real time one guarded call may take.
var HangLimit = 20 * time.Second

func startHangWatch() {
	if hangOn.Swap(true) {
		return
	}
	go func() {
		for {
			time.Sleep(100 * time.Millisecond)
			now := hangTick.Add(1)
			l := hangLabel.Load()
			if l == nil {
				continue
			}
			if time.Duration(now-hangSince.Load())*100*time.Millisecond > HangLimit {
				buf := make([]byte, 1<<20)
				n := runtime.Stack(buf, true)
				fmt.Printf("VERIF-HANG: %s\n%s\n", *l, buf[:n])
				os.Exit(3)
			}
		}
	}()
}

// CallStart marks the start of a guarded call into code under test.
func CallStart(label string) {
	hangSince.Store(hangTick.Load())
	hangLabel.Store(&label)
}

// CallEnd marks its return.
func CallEnd() { hangLabel.Store(nil) }
