package core

import (
	crand "crypto/rand"
	"fmt"
	"regexp"
	"runtime/debug"
	"strings"
	"testing"
	"testing/synctest"
	"time"
)

func shortStack() string {
	s := string(debug.Stack())
	lines := strings.Split(s, "\n")
	if len(lines) > 60 {
		lines = lines[:60]
	}
	return strings.Join(lines, "\n")
}

var siteRe = regexp.MustCompile(`any-sync[^\s]*/([a-z0-9_]+/[a-z0-9_]+\.go):(\d+)`)
var fnRe = regexp.MustCompile(`^github\.com/anyproto/any-sync/[^\s(]*?\.([A-Za-z0-9_().*]+)\(`)

// panicSite returns the first frame in any-sync code below the panic, as "pkg/file.go" (no line
// number: signatures must survive unrelated edits).
func panicSite(stack string) string {
	lines := strings.Split(stack, "\n")
	seenPanic := false
	for _, l := range lines {
		if strings.HasPrefix(l, "panic(") {
			seenPanic = true
			continue
		}
		if !seenPanic {
			continue
		}
		if m := siteRe.FindStringSubmatch(l); m != nil && !strings.Contains(l, "/verif/") {
			return m[1]
		}
	}
	for _, l := range lines {
		if m := siteRe.FindStringSubmatch(l); m != nil && !strings.Contains(l, "/verif/") {
			return m[1]
		}
	}
	return "unknown"
}

// Exec runs fn(r) inside a synctest bubble with crypto/rand.Reader replaced by the run's stream.
// Panics and end-of-bubble deadlocks are converted (deadlock => oracle "hang" unless the engine
// installs its own classification through r.Cfg["deadlock_ok"]).
func Exec(t *testing.T, r *Run, fn func(r *Run)) {
	old := crand.Reader
	crand.Reader = r.Crypto
	defer func() { crand.Reader = old }()
	defer func() {
		if p := recover(); p != nil {
			msg := fmt.Sprint(p)
			if strings.Contains(msg, "deadlock") {
				if r.Aborted() || r.DeadlockOK {
					return // goroutines abandoned by an aborted run are not a finding
				}
				r.FailNoPanic("hang", "bubble-deadlock", "goroutines left durably blocked at end of run: %v", msg)
				return
			}
			r.FailNoPanic("panic", "exec:"+panicSite(shortStack()), "panic escaping bubble: %v\n%s", p, shortStack())
		}
	}()
	synctest.Test(t, func(t *testing.T) {
		r.SimStart = time.Now()
		func() {
			defer func() { r.SimNS = int64(time.Since(r.SimStart)) }()
			defer r.Recover("run")
			fn(r)
		}()
		// let pending timers of background goroutines fire (time does not advance once the bubble's
		// root goroutine has returned)
		if d := r.Drain; d > 0 {
			time.Sleep(d)
		}
	})
}
