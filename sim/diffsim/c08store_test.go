package diffsim

// C08 over the two places where a head index is kept beside a store and rebuilt from it at start-up:
// the space's head index (real headsync.DiffManager over a real head storage and state storage on any-store)
// and the key-value store's index (real innerstorage over any-store). One run drives a history of updates,
// deletions and restarts; after every step the incrementally maintained index must answer exactly like an
// index rebuilt from the store at that moment, and the stored space hash must be the hash of the live index.
// Stubs: the space-storage shell (hands out the real head and state storages), the ACL (its id and head are
// only logged), the deletion state (a set).

import (
	"context"
	"fmt"
	"os"
	"path/filepath"

	"github.com/anyproto/any-sync/app/ldiff"
	"github.com/anyproto/any-sync/app/logger"
	"github.com/anyproto/any-sync/commonspace/deletionstate"
	"github.com/anyproto/any-sync/commonspace/headsync"
	"github.com/anyproto/any-sync/commonspace/headsync/headstorage"
	"github.com/anyproto/any-sync/commonspace/headsync/statestorage"
	"github.com/anyproto/any-sync/commonspace/object/acl/list"
	"github.com/anyproto/any-sync/commonspace/object/acl/syncacl"
	"github.com/anyproto/any-sync/commonspace/object/keyvalue/keyvaluestorage/innerstorage"
	"github.com/anyproto/any-sync/commonspace/spacestorage"

	"verif/sim/core"
	"verif/sim/simlib"
)

var storeParams = params{df: 32, th: 256}

type shellStorage struct {
	spacestorage.SpaceStorage
	hs headstorage.HeadStorage
	ss statestorage.StateStorage
}

func (s *shellStorage) HeadStorage() headstorage.HeadStorage    { return s.hs }
func (s *shellStorage) StateStorage() statestorage.StateStorage { return s.ss }

type aclShell struct{ syncacl.SyncAcl }

func (aclShell) Id() string            { return "acl" }
func (aclShell) Head() *list.AclRecord { return &list.AclRecord{Id: "aclhead"} }

type delSet struct {
	deletionstate.ObjectDeletionState
	ids map[string]bool
}

func (d *delSet) Exists(id string) bool { return d.ids[id] }

type headObserver struct{ dm **headsync.DiffManager }

func (o headObserver) OnUpdate(e headstorage.HeadsEntry) {
	if *o.dm != nil {
		(*o.dm).UpdateHeads(e)
	}
}

func modelOf(d ldiff.Diff) map[string]string {
	m := map[string]string{}
	for _, e := range d.Elements() {
		m[e.Id] = e.Head
	}
	return m
}

func mustNil(err error) {
	if err != nil {
		panic(err)
	}
}

// runC08Heads: the space's head index.
func runC08Heads(r *core.Run) {
	s := r.Src
	ctx := context.Background()
	dir := simlib.ScratchDir("c08h")
	defer os.RemoveAll(dir)
	db := simlib.OpenStore(filepath.Join(dir, "db"))
	defer db.Close()
	hs, err := headstorage.New(ctx, db)
	mustNil(err)
	ss, err := statestorage.Create(ctx, statestorage.State{SpaceId: "space", AclId: "acl", SettingsId: "settings", SpaceHeader: []byte("h")}, db)
	mustNil(err)
	shell := &shellStorage{hs: hs, ss: ss}
	del := &delSet{ids: map[string]bool{}}
	type obj struct {
		id      string
		status  headstorage.DeletedStatus
		derived bool
	}
	var objs []*obj
	str := func(v string) *string { return &v }
	bl := func(v bool) *bool { return &v }
	// what an older version (or a migration) left in the store before this process started: entries with and
	// without a common snapshot, derived and not, some holding only their root
	nOld := s.Range("old-entries", 0, 6)
	for i := 0; i < nOld; i++ {
		o := &obj{id: fmt.Sprintf("old%d", i), derived: s.Flip("old-derived", 0.3)}
		up := headstorage.HeadsUpdate{Id: o.id, IsDerived: bl(o.derived)}
		if s.Flip("old-root-only", 0.6) {
			up.Heads = []string{o.id}
		} else {
			up.Heads = []string{fmt.Sprintf("h%d", s.Choose("head", 4))}
		}
		if s.Flip("old-has-snapshot", 0.4) {
			up.CommonSnapshot = str(o.id)
		}
		mustNil(hs.UpdateEntry(ctx, up))
		objs = append(objs, o)
	}
	var dm *headsync.DiffManager
	hs.AddObserver(headObserver{&dm})
	var live ldiff.Diff
	start := func() {
		live = ldiff.New(storeParams.df, storeParams.th)
		dm = headsync.NewDiffManager(live, shell, aclShell{}, logger.NewNamed("c08"), ctx, del)
		mustNil(dm.FillDiff(ctx))
	}
	start()
	check := func(what string) {
		fresh := ldiff.New(storeParams.df, storeParams.th)
		saved := dm
		dm = nil // the rebuilt index is not an observer
		fdm := headsync.NewDiffManager(fresh, shell, aclShell{}, logger.NewNamed("c08"), ctx, del)
		// FillDiff writes the hash of what it built: keep the stored hash of the live index for the check below
		st, err := ss.GetState(ctx)
		mustNil(err)
		mustNil(fdm.FillDiff(ctx))
		dm = saved
		if st.NewHash != live.Hash() {
			r.Fail("stored-hash-stale", "", "%s: the stored space hash %s is not the hash of the live index %s", what, st.NewHash, live.Hash())
		}
		compareIndexes(r, storeParams, live, fresh, modelOf(fresh), "head index maintained vs rebuilt, "+what)
	}
	check("after start")
	nops := s.Range("nops", 4, 40)
	created := 0
	for i := 0; i < nops && !r.Aborted(); i++ {
		var alive, queued []*obj
		for _, o := range objs {
			switch o.status {
			case headstorage.DeletedStatusNotDeleted:
				alive = append(alive, o)
			case headstorage.DeletedStatusQueued:
				queued = append(queued, o)
			}
		}
		w := []int{4, 6 * minI(len(alive), 1), 3 * minI(len(alive), 1), 3 * minI(len(queued), 1), 1}
		switch op := s.Weighted("head-op", w); op {
		case 0: // a new object: its entry holds the root, which is its common snapshot
			created++
			o := &obj{id: fmt.Sprintf("new%d", created), derived: s.Flip("derived", 0.3)}
			mustNil(hs.UpdateEntry(ctx, headstorage.HeadsUpdate{Id: o.id, Heads: []string{o.id}, CommonSnapshot: str(o.id), IsDerived: bl(o.derived)}))
			objs = append(objs, o)
			r.Event("create", "%s derived=%v", o.id, o.derived)
		case 1: // heads move
			o := alive[s.Choose("obj", len(alive))]
			heads := []string{fmt.Sprintf("h%d", s.Choose("head", 4))}
			if s.Flip("two-heads", 0.2) {
				heads = append(heads, fmt.Sprintf("g%d", s.Choose("head2", 3)))
			}
			mustNil(hs.UpdateEntry(ctx, headstorage.HeadsUpdate{Id: o.id, Heads: heads}))
			r.Event("heads", "%s -> %v", o.id, heads)
		case 2: // deletion recorded: the id enters the deletion state and its entry is marked
			o := alive[s.Choose("obj", len(alive))]
			del.ids[o.id] = true
			o.status = headstorage.DeletedStatusQueued
			st := headstorage.DeletedStatusQueued
			mustNil(hs.UpdateEntry(ctx, headstorage.HeadsUpdate{Id: o.id, DeletedStatus: &st}))
			r.Event("delete-queued", "%s", o.id)
		case 3: // deletion carried out
			o := queued[s.Choose("obj", len(queued))]
			o.status = headstorage.DeletedStatusDeleted
			st := headstorage.DeletedStatusDeleted
			mustNil(hs.UpdateEntry(ctx, headstorage.HeadsUpdate{Id: o.id, DeletedStatus: &st}))
			r.Event("delete-done", "%s", o.id)
		case 4:
			start()
			r.Fault("restart")
			r.Event("restart", "n=%d", live.Len())
		}
		check(fmt.Sprintf("after step %d", i))
	}
	r.Nontriv = live.Len() > 0 || len(objs) > 2
}

var kvStamps = []int64{1, 1 << 20, 1 << 53, 1<<53 + 1, 1<<53 + 3, 1700000000000000, 1700000000000000000, 1700000000000000001, 1 << 62, 1<<62 + 1, 1<<63 - 1}

// runC08Kv: the key-value store's index.
func runC08Kv(r *core.Run) {
	s := r.Src
	ctx := context.Background()
	dir := simlib.ScratchDir("c08k")
	defer os.RemoveAll(dir)
	db := simlib.OpenStore(filepath.Join(dir, "db"))
	defer db.Close()
	hs, err := headstorage.New(ctx, db)
	mustNil(err)
	kv, err := innerstorage.New(ctx, "kv", hs, db)
	mustNil(err)
	check := func(what string) innerstorage.KeyValueStorage {
		fresh, err := innerstorage.New(ctx, "kv", hs, db)
		mustNil(err)
		compareIndexes(r, storeParams, kv.Diff(), fresh.Diff(), modelOf(fresh.Diff()), "key-value index maintained vs rebuilt, "+what)
		return fresh
	}
	nops := s.Range("nops", 3, 30)
	clock := int64(0)
	for i := 0; i < nops && !r.Aborted(); i++ {
		n := 1 + s.Choose("batch", 3)
		var vals []innerstorage.KeyValue
		for k := 0; k < n; k++ {
			var ts int64
			if s.Flip("odd-stamp", 0.4) {
				ts = kvStamps[s.Choose("stamp", len(kvStamps))] + int64(s.Choose("stamp-off", 3))
				if ts < 0 {
					ts = 1<<63 - 1
				}
			} else {
				clock += int64(1 + s.Choose("tick", 5))
				ts = clock
			}
			id := fmt.Sprintf("key%d-peer%d", s.Choose("key", 4), s.Choose("peer", 2))
			vals = append(vals, innerstorage.KeyValue{KeyPeerId: id, Key: id[:4], PeerId: id[5:], TimestampMicro: ts,
				Value: innerstorage.Value{Value: []byte(fmt.Sprintf("v%d", i))}})
		}
		mustNil(kv.Set(ctx, vals...))
		r.Event("set", "%d values, n=%d", n, kv.Diff().Len())
		fresh := check(fmt.Sprintf("after step %d", i))
		if s.Flip("restart", 0.15) {
			kv = fresh
			r.Fault("restart")
			r.Event("restart", "n=%d", kv.Diff().Len())
		}
	}
	r.Nontriv = kv.Diff().Len() > 0
}
