package diffsim

import (
	"encoding/binary"
	"math/bits"

	"github.com/cespare/xxhash"
)

// craftId returns a 16-byte id (8-byte prefix + 8 solved bytes) whose xxhash64 equals target.
// xxhash64 is a bijection on the last 8 input bytes; this is input generation (ids that sit exactly
// on range bounds), not an oracle. The result is re-checked against the real hash.
const (
	xp1 uint64 = 11400714785074694791
	xp2 uint64 = 14029467366897019727
	xp3 uint64 = 1609587929392839161
	xp4 uint64 = 9650029242287828579
	xp5 uint64 = 2870177450012600261
)

func modInv(a uint64) uint64 { // a odd
	x := a
	for i := 0; i < 6; i++ {
		x *= 2 - a*x
	}
	return x
}

func unxorshift(h uint64, s uint) uint64 {
	r := h
	for i := uint(0); i < 64/s+1; i++ {
		r = h ^ (r >> s)
	}
	return r
}

func xround0(k uint64) uint64 { return bits.RotateLeft64(k*xp2, 31) * xp1 }

func craftId(prefix [8]byte, target uint64) (string, bool) {
	h := xp5 + 16
	h ^= xround0(binary.LittleEndian.Uint64(prefix[:]))
	h1 := bits.RotateLeft64(h, 27)*xp1 + xp4
	// invert avalanche
	t := unxorshift(target, 32)
	t *= modInv(xp3)
	t = unxorshift(t, 29)
	t *= modInv(xp2)
	t = unxorshift(t, 33)
	// t = rol(h1 ^ round0(k), 27)*p1 + p4
	x := bits.RotateLeft64((t-xp4)*modInv(xp1), -27) ^ h1
	// x = rol(k*p2, 31)*p1
	k := bits.RotateLeft64(x*modInv(xp1), -31) * modInv(xp2)
	var b [16]byte
	copy(b[:8], prefix[:])
	binary.LittleEndian.PutUint64(b[8:], k)
	id := string(b[:])
	return id, xxhash.Sum64([]byte(id)) == target
}
