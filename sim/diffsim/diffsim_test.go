// Package diffsim: C07 (range-hash diff exactness over the wire adapters) and C08 (advertised hashes
// are a function of contents, not of history).
// Real code: app/ldiff, headsync.NewRemoteDiff/HandleRangeRequest, keyvalue.NewRemoteDiff/HandleRangeRequest,
// protobuf codecs. Stub: the wire (marshal -> bytes -> unmarshal, fault-injecting).
package diffsim

import (
	"context"
	"encoding/hex"
	"errors"
	"fmt"
	"math"
	"sort"
	"strings"
	"testing"

	"github.com/cespare/xxhash"

	"github.com/anyproto/any-sync/app/ldiff"
	"github.com/anyproto/any-sync/commonspace/headsync"
	"github.com/anyproto/any-sync/commonspace/object/keyvalue"
	"github.com/anyproto/any-sync/commonspace/spacesyncproto"

	"verif/sim/core"
)

func TestSim(t *testing.T) {
	core.QuietLogs()
	core.Main(t, "diffsim", map[string]core.PropFn{"C07": runC07, "C08": runC08})
}

// ---- id pools -------------------------------------------------------------------------------

var (
	uniformIds []string
	skewedIds  [][]string // groups of ids whose xxhash shares the top 14 bits (deep splitting)
)

func init() {
	groups := map[uint64][]string{}
	for i := 0; i < 400000; i++ {
		id := fmt.Sprintf("obj%d", i)
		if i < 30000 {
			uniformIds = append(uniformIds, id)
		}
		h := xxhash.Sum64([]byte(id))
		top := h >> 50
		if top%1024 < 3 { // keep a sparse subset of prefixes
			groups[top] = append(groups[top], id)
		}
	}
	keys := make([]uint64, 0, len(groups))
	for k := range groups {
		keys = append(keys, k)
	}
	sort.Slice(keys, func(i, j int) bool { return keys[i] < keys[j] })
	for _, k := range keys {
		if len(groups[k]) >= 20 {
			skewedIds = append(skewedIds, groups[k])
		}
	}
}

type params struct {
	df, th int
	pool   []string
	heads  int
	// headStyle: 0 heads of one length; 1 heads of several lengths (a longer head may be the smaller string);
	// 2 as 1, and the empty string is a head too
	headStyle int
}

var varHeads = []string{"b", "ab", "a", "ba", "abc", "c", "aa", ""}

func (p params) head(s *core.Src) string {
	switch p.headStyle {
	case 1:
		return varHeads[s.Choose("head", minI(p.heads+2, 7))]
	case 2:
		return varHeads[1+s.Choose("head", 7)]
	}
	return fmt.Sprintf("h%d", s.Choose("head", p.heads))
}

func minI(a, b int) int {
	if a < b {
		return a
	}
	return b
}

func genParams(r *core.Run, maxPool int) params {
	s := r.Src
	var p params
	switch s.Weighted("dfmode", []int{4, 3, 2}) {
	case 0:
		p.df = s.Range("df", 2, 4)
	case 1:
		p.df = []int{8, 16, 32, 64}[s.Choose("df", 4)]
	default:
		p.df = s.Range("df", 2, 64)
	}
	switch s.Weighted("thmode", []int{4, 3, 2}) {
	case 0:
		p.th = s.Range("th", 1, 4)
	case 1:
		p.th = s.Range("th", 5, 40)
	default:
		p.th = []int{64, 128, 256, 512}[s.Choose("th", 4)]
	}
	p.heads = s.Range("heads", 2, 4)
	p.headStyle = s.Weighted("headstyle", []int{5, 3, 2})
	size := s.Range("poolsize", 3, maxPool)
	switch s.Weighted("poolmode", []int{3, 4, 3, 3}) {
	case 3: // boundary: ids crafted so that their hash sits exactly on (or next to) range bounds of this run's division
		var targets []uint64
		lvl := []tuple{{0, ^uint64(0)}}
		for depth := 0; depth < 3 && len(targets) < 4*size; depth++ {
			var next []tuple
			for _, t := range lvl {
				for _, sub := range subdivide(t.from, t.to, p.df) {
					targets = append(targets, sub.from, sub.to, sub.from+1, sub.to-1)
					next = append(next, sub)
				}
			}
			// follow a few sub-ranges only (the tree is wide)
			lvl = lvl[:0]
			for i := 0; i < 3 && len(next) > 0; i++ {
				lvl = append(lvl, next[s.Choose("bndpath", len(next))])
			}
		}
		seen := map[uint64]bool{}
		for len(p.pool) < size && len(targets) > 0 {
			i := s.Choose("bndpick", len(targets))
			t := targets[i]
			targets = append(targets[:i], targets[i+1:]...)
			if seen[t] {
				continue
			}
			seen[t] = true
			var pre [8]byte
			copy(pre[:], fmt.Sprintf("b%07d", len(p.pool)))
			if id, ok := craftId(pre, t); ok {
				p.pool = append(p.pool, id)
			}
		}
		if n := size - len(p.pool); n > 0 {
			off := s.Choose("pooloff", len(uniformIds)-n)
			p.pool = append(p.pool, uniformIds[off:off+n]...)
		}
		r.SetCfg("pool", "boundary")
		r.Probe("boundary-pool")
	case 0: // uniform
		off := s.Choose("pooloff", len(uniformIds)-size)
		p.pool = append(p.pool, uniformIds[off:off+size]...)
		r.SetCfg("pool", "uniform")
	case 1: // skewed: ids from one or two prefix groups
		g := skewedIds[s.Choose("group", len(skewedIds))]
		n := size
		if n > len(g) {
			n = len(g)
		}
		p.pool = append(p.pool, g[:n]...)
		r.SetCfg("pool", "skewed")
	default: // mixed
		g := skewedIds[s.Choose("group", len(skewedIds))]
		n := size / 2
		if n > len(g) {
			n = len(g)
		}
		p.pool = append(p.pool, g[:n]...)
		off := s.Choose("pooloff", len(uniformIds)-size)
		p.pool = append(p.pool, uniformIds[off:off+size-n]...)
		r.SetCfg("pool", "mixed")
	}
	r.SetCfg("df", p.df)
	r.SetCfg("th", p.th)
	r.SetCfg("poolsize", len(p.pool))
	return p
}

// idx is a live index plus its model (id -> head).
type idx struct {
	d     ldiff.Diff
	model map[string]string
}

func newIdx(p params) *idx { return &idx{d: ldiff.New(p.df, p.th), model: map[string]string{}} }

func freshFrom(p params, model map[string]string, r *core.Run, shuffle bool) ldiff.Diff {
	d := ldiff.New(p.df, p.th)
	ids := core.SortedKeys(model)
	if shuffle {
		for i := len(ids) - 1; i > 0; i-- {
			j := r.Src.Choose("shuffle", i+1)
			ids[i], ids[j] = ids[j], ids[i]
		}
	}
	els := make([]ldiff.Element, 0, len(ids))
	for _, id := range ids {
		els = append(els, ldiff.Element{Id: id, Head: model[id]})
	}
	if len(els) > 0 {
		d.Set(els...)
	}
	return d
}

// mutate applies one random history operation; returns its kind.
func (x *idx) mutate(r *core.Run, p params, tag string) string {
	s := r.Src
	head := func() string { return p.head(s) }
	pick := func() string { return p.pool[s.Choose("id", len(p.pool))] }
	existing := func() (string, bool) {
		if len(x.model) == 0 {
			return "", false
		}
		ks := core.SortedKeys(x.model)
		return ks[s.Choose("exist", len(ks))], true
	}
	switch s.Weighted("op", []int{5, 3, 2, 2, 4, 1}) {
	case 0: // set (new or existing, whatever the pool gives)
		id, h := pick(), head()
		x.d.Set(ldiff.Element{Id: id, Head: h})
		_, was := x.model[id]
		x.model[id] = h
		if was {
			return "set-existing"
		}
		return "set-new"
	case 1: // update existing with a different head
		id, ok := existing()
		if !ok {
			return "noop"
		}
		h := head()
		x.d.Set(ldiff.Element{Id: id, Head: h})
		if x.model[id] == h {
			x.model[id] = h
			return "set-same"
		}
		x.model[id] = h
		return "set-update"
	case 2: // re-set existing with the same head
		id, ok := existing()
		if !ok {
			return "noop"
		}
		x.d.Set(ldiff.Element{Id: id, Head: x.model[id]})
		return "set-same"
	case 3: // multi set
		n := s.Range("multi", 2, 12)
		els := make([]ldiff.Element, 0, n)
		for i := 0; i < n; i++ {
			e := ldiff.Element{Id: pick(), Head: head()}
			els = append(els, e)
		}
		x.d.Set(els...)
		for _, e := range els {
			x.model[e.Id] = e.Head
		}
		return "set-multi"
	case 4: // remove existing
		id, ok := existing()
		if !ok {
			return "noop"
		}
		if err := x.d.RemoveId(id); err != nil {
			r.Fail("remove-existing", "", "%s: RemoveId(%s) of a present id returned %v", tag, id, err)
		}
		delete(x.model, id)
		return "remove"
	default: // remove absent
		id := pick()
		if _, ok := x.model[id]; ok {
			return "noop"
		}
		if err := x.d.RemoveId(id); !errors.Is(err, ldiff.ErrElementNotFound) {
			r.Fail("remove-absent", "", "%s: RemoveId(%s) of an absent id returned %v", tag, id, err)
		}
		return "remove-absent"
	}
}

func (x *idx) checkModel(r *core.Run, tag string) {
	els := x.d.Elements()
	if len(els) != len(x.model) || x.d.Len() != len(x.model) {
		r.Fail("contents", "", "%s: index holds %d elements (Len %d), model %d", tag, len(els), x.d.Len(), len(x.model))
	}
	for _, e := range els {
		if h, ok := x.model[e.Id]; !ok || h != e.Head {
			r.Fail("contents", "", "%s: element %v not in model (model head %q)", tag, e, h)
		}
	}
}

// ---- wire ------------------------------------------------------------------------------------

var errWire = errors.New("simulated transport error")

type wire struct {
	r         *core.Run
	responder ldiff.Diff
	requests  int
	ranges    int
	failAt    int // fail the k-th request (1-based), 0 = never
}

func (w *wire) HeadSync(ctx context.Context, in *spacesyncproto.HeadSyncRequest) (*spacesyncproto.HeadSyncResponse, error) {
	w.requests++
	w.ranges += len(in.Ranges)
	if w.failAt == w.requests {
		w.r.Fault("wire-error")
		return nil, errWire
	}
	b, err := in.MarshalVT()
	if err != nil {
		return nil, err
	}
	req := &spacesyncproto.HeadSyncRequest{}
	if err := req.UnmarshalVT(b); err != nil {
		return nil, err
	}
	resp, err := headsync.HandleRangeRequest(ctx, w.responder, req)
	if err != nil {
		return nil, err
	}
	rb, err := resp.MarshalVT()
	if err != nil {
		return nil, err
	}
	out := &spacesyncproto.HeadSyncResponse{}
	if err := out.UnmarshalVT(rb); err != nil {
		return nil, err
	}
	return out, nil
}

func (w *wire) StoreDiff(ctx context.Context, in *spacesyncproto.StoreDiffRequest) (*spacesyncproto.StoreDiffResponse, error) {
	w.requests++
	w.ranges += len(in.Ranges)
	if w.failAt == w.requests {
		w.r.Fault("wire-error")
		return nil, errWire
	}
	b, err := in.MarshalVT()
	if err != nil {
		return nil, err
	}
	req := &spacesyncproto.StoreDiffRequest{}
	if err := req.UnmarshalVT(b); err != nil {
		return nil, err
	}
	resp, err := keyvalue.HandleRangeRequest(ctx, w.responder, req)
	if err != nil {
		return nil, err
	}
	rb, err := resp.MarshalVT()
	if err != nil {
		return nil, err
	}
	out := &spacesyncproto.StoreDiffResponse{}
	if err := out.UnmarshalVT(rb); err != nil {
		return nil, err
	}
	return out, nil
}

// direct is the in-process remote; counts calls.
type direct struct {
	w *wire
}

func (d direct) Ranges(ctx context.Context, ranges []ldiff.Range, buf []ldiff.RangeResult) ([]ldiff.RangeResult, error) {
	d.w.requests++
	d.w.ranges += len(ranges)
	if d.w.failAt == d.w.requests {
		d.w.r.Fault("wire-error")
		return nil, errWire
	}
	return d.w.responder.Ranges(ctx, ranges, buf)
}

func sortedCopy(s []string) []string {
	c := append([]string{}, s...)
	sort.Strings(c)
	return c
}

func eqSets(a, b []string) bool {
	if len(a) != len(b) {
		return false
	}
	for i := range a {
		if a[i] != b[i] {
			return false
		}
	}
	return true
}

func short(s []string) string {
	if len(s) > 12 {
		return fmt.Sprintf("%v…(%d)", s[:12], len(s))
	}
	return fmt.Sprint(s)
}

// exchange runs one diff of local against remote through the chosen adapter and checks exactness.
func exchange(r *core.Run, p params, local, remote *idx, tag string) {
	s := r.Src
	w := &wire{r: r, responder: remote.d}
	mode := s.Weighted("wiremode", []int{2, 4, 3})
	var rem ldiff.Remote
	switch mode {
	case 0:
		rem = direct{w}
	case 1:
		rem = headsync.NewRemoteDiff("space", w)
	default:
		rem = keyvalue.NewRemoteDiff("space", w)
	}
	compare := s.Flip("compare", 0.5)
	if s.Flip("wirefault", 0.12) {
		w.failAt = s.Range("failat", 1, 4)
	}
	// expected
	var expNew, expChanged, expTheir, expRemoved []string
	for id, h := range local.model {
		rh, ok := remote.model[id]
		switch {
		case !ok:
			expRemoved = append(expRemoved, id)
		case rh != h:
			if compare && rh > h {
				expTheir = append(expTheir, id)
			} else {
				expChanged = append(expChanged, id)
			}
		}
	}
	for id := range remote.model {
		if _, ok := local.model[id]; !ok {
			expNew = append(expNew, id)
		}
	}
	ctx := context.Background()
	var gotNew, gotChanged, gotTheir, gotRemoved []string
	var err error
	if compare {
		gotNew, gotChanged, gotTheir, gotRemoved, err = local.d.(ldiff.CompareDiff).CompareDiff(ctx, rem)
	} else {
		gotNew, gotChanged, gotRemoved, err = local.d.Diff(ctx, rem)
	}
	modeName := []string{"direct", "headsync-wire", "kv-wire"}[mode]
	r.Event("diff", "%s %s compare=%v local=%d remote=%d requests=%d ranges=%d err=%v new=%d changed=%d their=%d removed=%d",
		tag, modeName, compare, len(local.model), len(remote.model), w.requests, w.ranges, err, len(gotNew), len(gotChanged), len(gotTheir), len(gotRemoved))
	if w.failAt > 0 && w.requests >= w.failAt {
		if err == nil {
			r.Fail("wire-error-swallowed", "", "%s: transport failed at request %d but Diff returned no error", tag, w.failAt)
		}
		return
	}
	if err != nil {
		r.Fail("diff-error", "", "%s: diff returned error %v without any injected fault", tag, err)
	}
	// termination / request bound: one request per level, depth <= log_df(2^64)+2
	maxRounds := int(math.Ceil(64/math.Log2(float64(p.df)))) + 3
	if w.requests > maxRounds {
		r.Fail("request-bound", "", "%s: %d requests for df=%d (bound %d)", tag, w.requests, p.df, maxRounds)
	}
	if w.requests >= 3 {
		r.Probe("deep-split(>=3 rounds)")
	}
	if w.requests >= 6 {
		r.Probe("deep-split(>=6 rounds)")
	}
	chk := func(name string, got, exp []string) {
		g, e := sortedCopy(got), sortedCopy(exp)
		for i := 1; i < len(g); i++ {
			if g[i] == g[i-1] {
				r.Fail("duplicate-id", name, "%s: id %s reported twice in %s (df=%d th=%d %s compare=%v)", tag, g[i], name, p.df, p.th, modeName, compare)
			}
		}
		if !eqSets(g, e) {
			r.Fail("inexact-diff", name, "%s: %s mismatch (df=%d th=%d %s compare=%v)\n got  %s\n want %s", tag, name, p.df, p.th, modeName, compare, short(g), short(e))
		}
	}
	chk("new", gotNew, expNew)
	chk("changed", gotChanged, expChanged)
	chk("theirChanged", gotTheir, expTheir)
	chk("removed", gotRemoved, expRemoved)
	if len(expNew)+len(expChanged)+len(expTheir)+len(expRemoved) > 0 && w.requests >= 2 {
		r.Nontriv = true
	}
	// DiffTypeCheck must agree with equality of contents (headsync adapter only)
	if mode == 1 {
		needs, err := headsync.NewRemoteDiff("space", &wire{r: r, responder: remote.d}).DiffTypeCheck(ctx, local.d)
		if err != nil {
			r.Fail("diff-type-check", "err", "%s: DiffTypeCheck error %v", tag, err)
		}
		same := len(expNew)+len(expChanged)+len(expTheir)+len(expRemoved) == 0
		if !same && !needs {
			r.Fail("diff-type-check", "missed", "%s: contents differ but DiffTypeCheck says in sync", tag)
		}
	}
}

func maxPoolFor(r *core.Run) int {
	if r.Tier == "thorough" && r.Src.Flip("bigpool", 0.03) {
		return 20000
	}
	if r.Src.Flip("midpool", 0.15) {
		return 1500
	}
	return 120
}

// C07: two parties with independent histories diff against each other.
func runC07(r *core.Run) {
	s := r.Src
	p := genParams(r, maxPoolFor(r))
	a, b := newIdx(p), newIdx(p)
	// a common base plus independent divergence
	base := s.Choose("base", len(p.pool)+1)
	for i := 0; i < base; i++ {
		id := p.pool[s.Choose("id", len(p.pool))]
		h := p.head(s)
		a.d.Set(ldiff.Element{Id: id, Head: h})
		a.model[id] = h
		b.d.Set(ldiff.Element{Id: id, Head: h})
		b.model[id] = h
	}
	rounds := s.Range("rounds", 1, 4)
	for k := 0; k < rounds; k++ {
		na, nb := s.Choose("na", 25), s.Choose("nb", 25)
		for i := 0; i < na; i++ {
			r.Event(a.mutate(r, p, "A"), "A")
		}
		for i := 0; i < nb; i++ {
			r.Event(b.mutate(r, p, "B"), "B")
		}
		a.checkModel(r, "A")
		b.checkModel(r, "B")
		exchange(r, p, a, b, "A<-B")
		if s.Flip("reverse", 0.5) {
			exchange(r, p, b, a, "B<-A")
		}
		if s.Flip("converge", 0.3) {
			// make b equal to a through a different history, then the diff must be empty
			for id := range b.model {
				if _, ok := a.model[id]; !ok {
					_ = b.d.RemoveId(id)
					delete(b.model, id)
				}
			}
			for _, id := range core.SortedKeys(a.model) {
				if b.model[id] != a.model[id] {
					b.d.Set(ldiff.Element{Id: id, Head: a.model[id]})
					b.model[id] = a.model[id]
				}
			}
			r.Event("converge", "B := A")
			exchange(r, p, a, b, "A<-B(equal)")
		}
	}
}

// ---- C08 -------------------------------------------------------------------------------------

type tuple struct{ from, to uint64 }

// subdivide is the canonical subdivision of [from,to] into df parts, written from the documented
// rule (equal parts, the remainder goes to the last part).
func subdivide(from, to uint64, df int) []tuple {
	d := uint64(df)
	per := (to - from) / d
	align := ((to-from)%d + 1) % d
	if align == 0 {
		per++
	}
	var out []tuple
	j := from
	for i := 0; i < df; i++ {
		if i == df-1 {
			per += align
		}
		out = append(out, tuple{j, j + per - 1})
		j += per
	}
	return out
}

func rrString(rr ldiff.RangeResult) string {
	var sb strings.Builder
	fmt.Fprintf(&sb, "hash=%s count=%d els=[", hex.EncodeToString(rr.Hash), rr.Count)
	for _, e := range rr.Elements {
		sb.WriteString(e.Id + ":" + e.Head + " ")
	}
	sb.WriteString("]")
	return sb.String()
}

// compareIndexes checks that two indexes with equal contents answer identically.
func compareIndexes(r *core.Run, p params, x, y ldiff.Diff, model map[string]string, what string) {
	s := r.Src
	if x.Hash() != y.Hash() {
		r.Fail("hash-depends-on-history", what, "%s: equal contents (%d elements, df=%d th=%d) but Hash %s vs %s",
			what, len(model), p.df, p.th, x.Hash(), y.Hash())
	}
	// range queries: whole range, canonical subdivision down to 3 levels along occupied buckets, random aligned ranges
	var ranges []ldiff.Range
	ranges = append(ranges, ldiff.Range{From: 0, To: math.MaxUint64}, ldiff.Range{From: 0, To: math.MaxUint64, Elements: true})
	occupied := func(t tuple) bool {
		for id := range model {
			h := xxhash.Sum64([]byte(id))
			if h >= t.from && h <= t.to {
				return true
			}
		}
		return false
	}
	level := []tuple{{0, math.MaxUint64}}
	for depth := 0; depth < 3; depth++ {
		var next []tuple
		for _, t := range level {
			if t.to-t.from < uint64(p.df) {
				continue
			}
			subs := subdivide(t.from, t.to, p.df)
			for _, st := range subs {
				ranges = append(ranges, ldiff.Range{From: st.from, To: st.to}, ldiff.Range{From: st.from, To: st.to, Elements: true})
				if occupied(st) && len(next) < 6 {
					next = append(next, st)
				}
			}
		}
		level = next
	}
	// follow one occupied path deeper (skewed pools)
	if len(model) > 0 {
		ks := core.SortedKeys(model)
		target := xxhash.Sum64([]byte(ks[s.Choose("deepid", len(ks))]))
		t := tuple{0, math.MaxUint64}
		for depth := 0; depth < 16 && t.to-t.from >= uint64(p.df); depth++ {
			for _, st := range subdivide(t.from, t.to, p.df) {
				if target >= st.from && target <= st.to {
					t = st
					break
				}
			}
			ranges = append(ranges, ldiff.Range{From: t.from, To: t.to}, ldiff.Range{From: t.from, To: t.to, Elements: true})
		}
	}
	ctx := context.Background()
	rx, err1 := x.Ranges(ctx, ranges, nil)
	ry, err2 := y.Ranges(ctx, ranges, nil)
	if err1 != nil || err2 != nil {
		r.Fail("ranges-error", "", "Ranges returned error %v / %v", err1, err2)
	}
	for i := range ranges {
		if rrString(rx[i]) != rrString(ry[i]) {
			r.Fail("range-answer-depends-on-history", what, "%s: equal contents (%d elements, df=%d th=%d) but range %+v answered\n  %s\n  %s",
				what, len(model), p.df, p.th, ranges[i], rrString(rx[i]), rrString(ry[i]))
		}
	}
	r.Count("evals")
}

func runC08(r *core.Run) {
	s := r.Src
	// three legs: the index itself under histories; the space's head index beside its store; the key-value index
	// beside its store
	switch leg := s.Weighted("c08-leg", []int{6, 2, 2}); leg {
	case 1:
		r.SetCfg("leg", "head index over storage")
		runC08Heads(r)
		return
	case 2:
		r.SetCfg("leg", "key-value index over storage")
		runC08Kv(r)
		return
	}
	r.SetCfg("leg", "index histories")
	p := genParams(r, maxPoolFor(r))
	live := newIdx(p)
	nops := s.Range("nops", 5, 120)
	checkEvery := 1
	if len(p.pool) > 300 {
		checkEvery = 10
	}
	kinds := map[string]bool{}
	for i := 0; i < nops; i++ {
		k := live.mutate(r, p, "live")
		kinds[k] = true
		r.Event(k, "n=%d hash=%s", len(live.model), live.d.Hash()[:8])
		if s.Flip("restart", 0.04) {
			// restart: the index is rebuilt from current contents and continues
			live.d = freshFrom(p, live.model, r, false)
			r.Event("restart", "n=%d", len(live.model))
			r.Fault("restart")
		}
		if i%checkEvery == 0 || i == nops-1 {
			live.checkModel(r, "live")
			fresh := freshFrom(p, live.model, r, false)
			compareIndexes(r, p, live.d, fresh, live.model, "live-vs-fresh")
			if len(live.model) == 0 && live.d.Hash() != ldiff.New(p.df, p.th).Hash() {
				r.Fail("hash-depends-on-history", "empty", "emptied index hash %s differs from a new index", live.d.Hash())
			}
		}
	}
	// second history reaching the same contents: shuffled insert order with temporary extra elements
	other := newIdx(p)
	ids := core.SortedKeys(live.model)
	for i := len(ids) - 1; i > 0; i-- {
		j := s.Choose("shuffle", i+1)
		ids[i], ids[j] = ids[j], ids[i]
	}
	var temps []string
	for _, id := range ids {
		if s.Flip("temp", 0.3) {
			t := p.pool[s.Choose("id", len(p.pool))]
			if _, ok := live.model[t]; !ok {
				other.d.Set(ldiff.Element{Id: t, Head: "tmp"})
				temps = append(temps, t)
			}
		}
		if s.Flip("stale-first", 0.3) {
			other.d.Set(ldiff.Element{Id: id, Head: "stale"})
		}
		other.d.Set(ldiff.Element{Id: id, Head: live.model[id]})
		other.model[id] = live.model[id]
	}
	for _, t := range temps {
		_ = other.d.RemoveId(t)
	}
	r.Event("second-history", "n=%d temps=%d", len(other.model), len(temps))
	other.checkModel(r, "other")
	compareIndexes(r, p, live.d, other.d, live.model, "two-histories")
	// in sync is recognised without exchanging ranges
	w := &wire{r: r, responder: other.d}
	needs, err := headsync.NewRemoteDiff("space", w).DiffTypeCheck(context.Background(), live.d)
	if err != nil || needs {
		r.Fail("in-sync-not-recognised", "", "equal contents but DiffTypeCheck needs=%v err=%v", needs, err)
	}
	r.Nontriv = len(kinds) >= 3 && len(live.model) > 0
}
