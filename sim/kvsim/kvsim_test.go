// Package kvsim: the space key-value store under a simulated network and byzantine values (C12).
// Real code: keyvaluestorage (Set, SetRaw, Iterate, decrypt), innerstorage (LWW upsert, diff
// maintenance, rollback), ldiff, keyvalue.NewRemoteDiff / HandleRangeRequest (wire adapters), real
// AclList, headstorage, any-store. Harness-owned: push transport (SyncClient), the element exchange
// of a pull (the service streams StoreKeyValue messages over a DRPC stream: here the same messages,
// in the same order and batches, cross as marshalled bytes), faultstore for failing writes.
package kvsim

import (
	"bytes"
	"context"
	"encoding/binary"
	"fmt"
	"io"
	"os"
	"path/filepath"
	"sort"
	"strings"
	"sync/atomic"
	"testing"
	"testing/synctest"
	"time"

	"storj.io/drpc"

	anystore "github.com/anyproto/any-store"

	"github.com/anyproto/any-sync/accountservice"
	"github.com/anyproto/any-sync/app"
	"github.com/anyproto/any-sync/app/ldiff"
	"github.com/anyproto/any-sync/commonspace/object/accountdata"
	"github.com/anyproto/any-sync/commonspace/object/acl/list"
	"github.com/anyproto/any-sync/commonspace/object/acl/recordverifier"
	"github.com/anyproto/any-sync/commonspace/object/acl/syncacl"
	"github.com/anyproto/any-sync/commonspace/object/keyvalue"
	"github.com/anyproto/any-sync/commonspace/object/keyvalue/keyvaluestorage"
	"github.com/anyproto/any-sync/commonspace/object/keyvalue/keyvaluestorage/innerstorage"
	"github.com/anyproto/any-sync/commonspace/object/keyvalue/kvinterfaces"
	"github.com/anyproto/any-sync/commonspace/spacestate"
	"github.com/anyproto/any-sync/commonspace/spacestorage"
	"github.com/anyproto/any-sync/commonspace/spacesyncproto"
	"github.com/anyproto/any-sync/commonspace/sync"
	"github.com/anyproto/any-sync/commonspace/sync/objectsync/objectmessages"
	"github.com/anyproto/any-sync/consensus/consensusproto"
	"github.com/anyproto/any-sync/net/peer"
	"github.com/anyproto/any-sync/util/cidutil"
	"github.com/anyproto/any-sync/util/crypto"

	"verif/sim/core"
	"verif/sim/faultstore"
	"verif/sim/simlib"
)

var props = map[string]core.PropFn{"C12": runC12}

func TestSim(t *testing.T) {
	core.QuietLogs()
	core.Main(t, "kvsim", props)
}

var ctxb = context.Background()

func must(err error) {
	if err != nil {
		panic(err)
	}
}

const (
	pNone = iota
	pReader
	pWriter
)

type device struct {
	name string
	acc  *simlib.Account
	keys *accountdata.AccountKeys // account sign key + this device's peer key
}

type slotVal struct {
	ts    int64
	value []byte // StoreKeyValue.Value bytes (signed inner)
}

type node struct {
	w      *world
	idx    int
	name   string
	dev    *device
	dir    string
	raw    anystore.DB
	plan   *faultstore.Plan
	ss     spacestorage.SpaceStorage
	acl    list.AclList
	aclIdx int
	store  keyvaluestorage.Storage
	svc    kvinterfaces.KeyValueService // the real key-value service (owns store)
	a      *app.App
	model  map[string]slotVal // slot (KeyPeerId) -> winning valid value received so far
	// values that were valid but cited an ACL record this node did not hold when they arrived
	sent   []*msg
	outbox []outMsg
}

type outMsg struct {
	bytes []byte
	n     int
}

// flushOut puts what the nodes broadcast since the last call on the network, in node order.
func (w *world) flushOut() {
	for _, n := range w.nodes {
		for _, m := range n.outbox {
			for _, o := range w.nodes {
				if o.idx == n.idx {
					continue
				}
				w.seq++
				w.msgs = append(w.msgs, &msg{seq: w.seq, src: n.idx, dst: o.idx, bytes: m.bytes, note: fmt.Sprintf("%d values", m.n)})
			}
		}
		n.outbox = nil
	}
}

type msg struct {
	seq      int
	src, dst int
	bytes    []byte // marshalled StoreKeyValues
	note     string
}

type world struct {
	vcache  map[string]verdict
	big     bool
	r       *core.Run
	dir     string
	space   *simlib.Space
	accs    map[string]*simlib.Account
	perm    []map[string]int // perm[k][account] for ACL record index k
	recIds  []string
	recs    []*consensusproto.RawRecordWithId
	devices []*device
	nodes   []*node
	msgs    []*msg
	seq     int
	storeId string
	keys    []string
	lagRun  bool
}

// kvSync is the sync service the key-value service broadcasts through: every broadcast becomes one message
// in flight to every other node (bytes as they cross the wire).
type kvSync struct {
	sync.SyncService
	n *node
}

func (c *kvSync) Init(*app.App) error { return nil }
func (c *kvSync) Name() string        { return sync.CName }
func (c *kvSync) BroadcastMessage(ctx context.Context, m drpc.Message) error {
	hu, ok := m.(*objectmessages.HeadUpdate)
	if !ok {
		return fmt.Errorf("unexpected broadcast %T", m)
	}
	pm, err := hu.ProtoMessage()
	if err != nil {
		return err
	}
	b := append([]byte{}, pm.(*spacesyncproto.ObjectSyncMessage).Payload...)
	kvs := &spacesyncproto.StoreKeyValues{}
	if err := kvs.UnmarshalVT(b); err != nil {
		return err
	}
	// (queued per node: during an exchange both services broadcast from their own goroutines; the event loop
	// moves the queues into the network in node order)
	c.n.outbox = append(c.n.outbox, outMsg{b, len(kvs.KeyValues)})
	return nil
}

type kvAccount struct{ keys *accountdata.AccountKeys }

func (a *kvAccount) Init(*app.App) error               { return nil }
func (a *kvAccount) Name() string                      { return accountservice.CName }
func (a *kvAccount) Account() *accountdata.AccountKeys { return a.keys }

type kvAcl struct{ list.AclList }

func (a kvAcl) Init(*app.App) error { return nil }
func (a kvAcl) Name() string        { return syncacl.CName }

// ---- the wire between two key-value services ---------------------------------------------------------------

// kvPipe is one direction of a stream: marshalled messages, in order.
type kvPipe struct {
	ch     chan []byte
	closed chan struct{}
}

func newPipe() *kvPipe { return &kvPipe{ch: make(chan []byte, 100000), closed: make(chan struct{})} }

type kvStreamEnd struct {
	ctx      context.Context
	in, out  *kvPipe
	conn     *kvConn
	isClient bool
	recvN    int
}

func (e *kvStreamEnd) Context() context.Context { return e.ctx }
func (e *kvStreamEnd) CloseSend() error         { return nil }
func (e *kvStreamEnd) Close() error {
	select {
	case <-e.out.closed:
	default:
		close(e.out.closed)
	}
	return nil
}
func (e *kvStreamEnd) MsgSend(m drpc.Message, _ drpc.Encoding) error {
	b, err := m.(*spacesyncproto.StoreKeyValue).MarshalVT()
	if err != nil {
		return err
	}
	select {
	case <-e.in.closed: // the other side hung up
		return io.ErrClosedPipe
	default:
	}
	e.out.ch <- b
	return nil
}
func (e *kvStreamEnd) MsgRecv(m drpc.Message, _ drpc.Encoding) error {
	if e.isClient && e.conn.breakAt >= 0 && e.recvN >= e.conn.breakAt {
		e.conn.broke = true
		_ = e.Close()
		return io.ErrUnexpectedEOF // the stream breaks here
	}
	select {
	case b := <-e.in.ch:
		kv := m.(*spacesyncproto.StoreKeyValue)
		if err := kv.UnmarshalVT(b); err != nil {
			return err
		}
		e.recvN++
		e.conn.tap(e.isClient, b)
		return nil
	case <-e.in.closed:
		select {
		case b := <-e.in.ch:
			kv := m.(*spacesyncproto.StoreKeyValue)
			if err := kv.UnmarshalVT(b); err != nil {
				return err
			}
			e.recvN++
			e.conn.tap(e.isClient, b)
			return nil
		default:
		}
		return io.EOF
	}
}

// server side of StoreElements (what the generated drpc stream wrapper provides)
type kvServerStream struct{ *kvStreamEnd }

func (s kvServerStream) Send(m *spacesyncproto.StoreKeyValue) error { return s.MsgSend(m, nil) }
func (s kvServerStream) Recv() (*spacesyncproto.StoreKeyValue, error) {
	m := &spacesyncproto.StoreKeyValue{}
	if err := s.MsgRecv(m, nil); err != nil {
		return nil, err
	}
	return m, nil
}

// kvConn: the drpc connection of the client node to the server node for one exchange.
type kvConn struct {
	w        *world
	c, s     *node
	breakAt  int
	broke    bool
	pushed   []*spacesyncproto.StoreKeyValue // values the server received from the client
	received []*spacesyncproto.StoreKeyValue // values the client received from the server
	asked    int
	srvErr   error
}

func (c *kvConn) tap(clientSide bool, b []byte) {
	kv := &spacesyncproto.StoreKeyValue{}
	must(kv.UnmarshalVT(b))
	switch {
	case clientSide && kv.KeyPeerId != "":
		c.received = append(c.received, kv)
	case !clientSide && kv.Value != nil:
		c.pushed = append(c.pushed, kv)
	case !clientSide && kv.KeyPeerId != "":
		c.asked++
	}
}

func (c *kvConn) Close() error            { return nil }
func (c *kvConn) Closed() <-chan struct{} { return make(chan struct{}) }
func (c *kvConn) Invoke(ctx context.Context, rpc string, _ drpc.Encoding, in, out drpc.Message) error {
	if !strings.HasSuffix(rpc, "/StoreDiff") {
		return fmt.Errorf("unexpected rpc %s", rpc)
	}
	b, err := in.(*spacesyncproto.StoreDiffRequest).MarshalVT()
	if err != nil {
		return err
	}
	req := &spacesyncproto.StoreDiffRequest{}
	if err = req.UnmarshalVT(b); err != nil {
		return err
	}
	resp, err := c.s.svc.HandleStoreDiffRequest(ctx, req)
	if err != nil {
		return err
	}
	ob, err := resp.MarshalVT()
	if err != nil {
		return err
	}
	return out.(*spacesyncproto.StoreDiffResponse).UnmarshalVT(ob)
}
func (c *kvConn) NewStream(ctx context.Context, rpc string, _ drpc.Encoding) (drpc.Stream, error) {
	if !strings.HasSuffix(rpc, "/StoreElements") {
		return nil, fmt.Errorf("unexpected rpc %s", rpc)
	}
	up, down := newPipe(), newPipe()
	cl := &kvStreamEnd{ctx: ctx, in: down, out: up, conn: c, isClient: true}
	sv := &kvStreamEnd{ctx: ctxb, in: up, out: down, conn: c}
	go func() {
		// the rpc layer reads the first message to find the space, then hands the stream to its service
		first, err := kvServerStream{sv}.Recv()
		if err != nil || first.SpaceId != c.w.space.Id {
			c.srvErr = fmt.Errorf("routing message: %v", err)
		} else {
			c.srvErr = c.s.svc.HandleStoreElementsRequest(ctxb, kvServerStream{sv})
		}
		_ = sv.Close()
	}()
	return cl, nil
}

type kvPeer struct {
	peer.Peer
	id   string
	conn *kvConn
}

func (p *kvPeer) Id() string                                         { return p.id }
func (p *kvPeer) AcquireDrpcConn(context.Context) (drpc.Conn, error) { return p.conn, nil }
func (p *kvPeer) ReleaseDrpcConn(context.Context, drpc.Conn)         {}

func storageId(spaceId string) string {
	data, err := (&spacesyncproto.StorageHeader{SpaceId: spaceId, StorageName: "default"}).MarshalVT()
	must(err)
	id, err := cidutil.NewCidFromBytes(data)
	must(err)
	return id
}

func (w *world) addNode(dev *device, faulty bool) *node {
	n := &node{w: w, idx: len(w.nodes), dev: dev, model: map[string]slotVal{}}
	n.name = fmt.Sprintf("N%d(%s)", n.idx, dev.name)
	n.dir = filepath.Join(w.dir, fmt.Sprintf("n%d", n.idx))
	must(os.MkdirAll(n.dir, 0o755))
	n.raw = simlib.OpenStore(filepath.Join(n.dir, "store.db"))
	var db anystore.DB = n.raw
	if faulty {
		n.plan = &faultstore.Plan{}
		db = faultstore.Wrap(n.raw, n.plan)
	}
	var err error
	n.ss, err = spacestorage.Create(ctxb, db, w.space.Payload)
	must(err)
	aclSt, err := n.ss.AclStorage()
	must(err)
	n.acl, err = list.BuildAclListWithIdentity(dev.keys, aclSt, recordverifier.NewValidateFull())
	must(err)
	n.svc = keyvalue.New()
	n.a = new(app.App)
	n.a.Register(&spacestate.SpaceState{SpaceId: w.space.Id, SpaceIsClosed: &atomic.Bool{}, TreesUsed: &atomic.Int32{}}).
		Register(&kvAccount{dev.keys}).Register(kvAcl{n.acl}).Register(n.ss).Register(&kvSync{n: n}).Register(keyvaluestorage.NoOpIndexer{}).Register(n.svc)
	must(n.a.Start(ctxb))
	n.store = n.svc.DefaultStore()
	if n.store.Id() != w.storeId {
		panic("harness: store id mismatch")
	}
	w.nodes = append(w.nodes, n)
	return n
}

func (n *node) aclTo(k int) {
	for n.aclIdx < k {
		n.acl.Lock()
		err := n.acl.AddRawRecord(n.w.recs[n.aclIdx+1])
		n.acl.Unlock()
		must(err)
		n.aclIdx++
	}
}

// ---- reference predicate and model -----------------------------------------------------------------

// validCached: valid() memoised on everything the verdict depends on (check() re-judges every stored value
// after every event; large stores would spend their time re-verifying the same signatures).
func (w *world) validCached(n *node, kv *spacesyncproto.StoreKeyValue) (bool, string) {
	key := fmt.Sprintf("%d|%s|%x|%x|%x", n.aclIdx, kv.KeyPeerId, kv.Value, kv.IdentitySignature, kv.PeerSignature)
	if v, ok := w.vcache[key]; ok {
		return v.ok, v.why
	}
	ok, _, why := w.valid(n, kv)
	if w.vcache == nil {
		w.vcache = map[string]verdict{}
	}
	w.vcache[key] = verdict{ok, why}
	return ok, why
}

type verdict struct {
	ok  bool
	why string
}

// valid: the property's conditions for storing a value on node n (conjuncts over the wire message).
func (w *world) valid(n *node, kv *spacesyncproto.StoreKeyValue) (ok bool, ts int64, why string) {
	inner := &spacesyncproto.StoreKeyInner{}
	if err := inner.UnmarshalVT(kv.Value); err != nil {
		return false, 0, "undecodable"
	}
	ident, err := crypto.UnmarshalEd25519PublicKeyProto(inner.Identity)
	if err != nil {
		return false, 0, "identity is not a key"
	}
	dev, err := crypto.UnmarshalEd25519PublicKeyProto(inner.Peer)
	if err != nil {
		return false, 0, "device is not a key"
	}
	if v, _ := ident.Verify(kv.Value, kv.IdentitySignature); !v {
		return false, 0, "account signature does not verify over the stored bytes"
	}
	if v, _ := dev.Verify(kv.Value, kv.PeerSignature); !v {
		return false, 0, "device signature does not verify over the stored bytes"
	}
	if kv.KeyPeerId != inner.Key+"-"+dev.PeerId() {
		return false, 0, "filed under a slot other than the one named in the signed bytes"
	}
	k := -1
	for i, id := range w.recIds {
		if id == inner.AclHeadId {
			k = i
		}
	}
	if k < 0 {
		return false, 0, "cites an ACL record that does not exist"
	}
	if k > n.aclIdx {
		return false, 0, "cites an ACL record this node does not hold"
	}
	name := ""
	for an, a := range w.accs {
		if a.Pub().Equals(ident) {
			name = an
		}
	}
	if name == "" || w.perm[k][name] < pWriter {
		return false, 0, fmt.Sprintf("the signing account held no write permission at record #%d", k)
	}
	return true, inner.TimestampMicro, ""
}

// receive updates the model of node n with the values of one delivered batch.
func (n *node) receive(kvs []*spacesyncproto.StoreKeyValue) {
	for _, kv := range kvs {
		ok, ts, _ := n.w.valid(n, kv)
		if !ok {
			continue
		}
		if cur, has := n.model[kv.KeyPeerId]; !has || ts > cur.ts {
			n.model[kv.KeyPeerId] = slotVal{ts, append([]byte{}, kv.Value...)}
		}
	}
}

func headOf(ts int64) string {
	b := make([]byte, 8)
	binary.BigEndian.PutUint64(b, uint64(ts))
	return string(b)
}

// check: contents = model; advertised index = contents; recorded hash = index hash.
func (n *node) check(when string) {
	r := n.w.r
	got := map[string]slotVal{}
	err := n.store.InnerStorage().IterateValues(ctxb, func(kv innerstorage.KeyValue) (bool, error) {
		got[kv.KeyPeerId] = slotVal{kv.TimestampMicro, append([]byte{}, kv.Value.Value...)}
		// what is stored must itself satisfy the property (signatures over exactly the stored bytes...)
		if ok, why := n.w.validCached(n, kv.Proto()); !ok {
			r.Fail("invalid-value-stored", classify(why), "%s (%s): slot %s holds a value that must not be stored: %s", n.name, when, slotName(kv.KeyPeerId), why)
		}
		return true, nil
	})
	if err != nil {
		r.Fail("store-unreadable", "", "%s (%s): %v", n.name, when, err)
	}
	var slots []string
	for s := range n.model {
		slots = append(slots, s)
	}
	for s := range got {
		if _, ok := n.model[s]; !ok {
			slots = append(slots, s)
		}
	}
	sort.Strings(slots)
	for _, s := range slots {
		m, inModel := n.model[s]
		g, inStore := got[s]
		switch {
		case inModel && !inStore:
			r.Fail("lww-violated", "missing", "%s (%s): slot %s: a valid value (t=%d) was received but nothing is stored", n.name, when, slotName(s), m.ts)
		case !inModel && inStore:
			r.Fail("invalid-value-stored", "unknown", "%s (%s): slot %s holds a value (t=%d) that was never validly received", n.name, when, slotName(s), g.ts)
		case m.ts != g.ts || !bytes.Equal(m.value, g.value):
			r.Fail("lww-violated", "wrong-winner", "%s (%s): slot %s holds the value with t=%d, the greatest valid timestamp received is t=%d", n.name, when, slotName(s), g.ts, m.ts)
		}
	}
	// advertised index
	d := n.store.InnerStorage().Diff()
	els := d.Elements()
	if len(els) != len(got) {
		r.Fail("index-differs-from-store", "count", "%s (%s): the index advertises %d entries, %d values are stored", n.name, when, len(els), len(got))
	}
	fresh := ldiff.New(32, 256)
	for _, e := range els {
		g, ok := got[e.Id]
		if !ok || e.Head != headOf(g.ts) {
			r.Fail("index-differs-from-store", "entry", "%s (%s): the index advertises %s at a timestamp that is not the stored one", n.name, when, slotName(e.Id))
		}
		fresh.Set(e)
	}
	if len(els) > 0 && fresh.Hash() != d.Hash() {
		r.Fail("index-differs-from-store", "hash", "%s (%s): the advertised hash is not the hash of the advertised entries", n.name, when)
	}
	entry, err := n.ss.HeadStorage().GetEntry(ctxb, n.w.storeId)
	if len(got) > 0 {
		if err != nil || len(entry.Heads) != 1 || entry.Heads[0] != d.Hash() {
			r.Fail("index-differs-from-store", "head-entry", "%s (%s): the head storage entry of the key-value store (%v, err %v) is not the index hash", n.name, when, entry.Heads, err)
		}
	}
	r.Count("evals")
}

func classify(why string) string {
	switch {
	case strings.Contains(why, "signature"):
		return "signature"
	case strings.Contains(why, "slot other"):
		return "relabelled"
	case strings.Contains(why, "write permission"):
		return "permission"
	case strings.Contains(why, "ACL record"):
		return "acl-record"
	}
	return "other"
}

func slotName(s string) string {
	if i := strings.LastIndex(s, "-"); i > 0 && len(s)-i > 8 {
		return s[:i] + "-…" + s[len(s)-5:]
	}
	return s
}

// ---- value construction ------------------------------------------------------------------------------

func (w *world) craft(dev *device, signer *simlib.Account, key string, ts int64, aclId string, payload []byte) *spacesyncproto.StoreKeyValue {
	peerPub, err := dev.keys.PeerKey.GetPublic().Marshall()
	must(err)
	idPub, err := signer.Pub().Marshall()
	must(err)
	inner, err := (&spacesyncproto.StoreKeyInner{Peer: peerPub, Identity: idPub, Value: payload, TimestampMicro: ts, AclHeadId: aclId, Key: key}).MarshalVT()
	must(err)
	ps, err := dev.keys.PeerKey.Sign(inner)
	must(err)
	is, err := signer.Keys.SignKey.Sign(inner)
	must(err)
	return &spacesyncproto.StoreKeyValue{KeyPeerId: key + "-" + dev.keys.PeerKey.GetPublic().PeerId(), Value: inner, PeerSignature: ps, IdentitySignature: is}
}

// ---- transport -----------------------------------------------------------------------------------------

func (w *world) deliver(m *msg) {
	dst := w.nodes[m.dst]
	kvs := &spacesyncproto.StoreKeyValues{}
	if err := kvs.UnmarshalVT(m.bytes); err != nil {
		w.r.Event("deliver-garbage", "#%d", m.seq)
		return
	}
	dst.receive(kvs.KeyValues)
	err := dst.store.SetRaw(ctxb, kvs.KeyValues...)
	w.r.Event("deliver", "#%d N%d->%s %s: %v", m.seq, m.src, dst.name, m.note, errS(err))
	dst.check("after push")
}

func errS(err error) string {
	if err == nil {
		return "ok"
	}
	s := err.Error()
	if len(s) > 70 {
		s = s[:70]
	}
	return s
}

type wireClient struct{ srv *node }

func (c wireClient) StoreDiff(ctx context.Context, req *spacesyncproto.StoreDiffRequest) (*spacesyncproto.StoreDiffResponse, error) {
	b, err := req.MarshalVT()
	if err != nil {
		return nil, err
	}
	in := &spacesyncproto.StoreDiffRequest{}
	if err = in.UnmarshalVT(b); err != nil {
		return nil, err
	}
	resp, err := keyvalue.HandleRangeRequest(ctx, c.srv.store.InnerStorage().Diff(), in)
	if err != nil {
		return nil, err
	}
	ob, err := resp.MarshalVT()
	if err != nil {
		return nil, err
	}
	out := &spacesyncproto.StoreDiffResponse{}
	return out, out.UnmarshalVT(ob)
}

func wire(kv *spacesyncproto.StoreKeyValue) *spacesyncproto.StoreKeyValue {
	b, err := kv.MarshalVT()
	must(err)
	out := &spacesyncproto.StoreKeyValue{}
	must(out.UnmarshalVT(b))
	return out
}

// pull: one sync exchange of client c with server s, run by the real services: c's SyncWithPeer over a harness
// connection whose Invoke / NewStream end in s's HandleStoreDiffRequest / HandleStoreElementsRequest; every
// message crosses as bytes. breakAt >= 0: the stream from the server breaks after that many messages.
func (w *world) pull(c, s *node, breakAt int, _ int) {
	conn := &kvConn{w: w, c: c, s: s, breakAt: breakAt}
	_ = c.svc.SyncWithPeer(&kvPeer{id: s.name, conn: conn})
	synctest.Wait() // the exchange runs to its end (both services' goroutines)
	// the server stores what the client pushed whatever happens to the stream afterwards
	s.receive(conn.pushed)
	s.check("pull: server stored the client's values")
	if !conn.broke {
		c.receive(conn.received)
	} else {
		// a broken stream leaves a prefix of what was received applied (the client applies in batches): per slot
		// any state on the way from the old winner to the winner over everything received is acceptable
		w.r.Fault("stream-break")
		c.receiveSomePrefix(conn.received)
	}
	c.check("pull: client applied what it received")
	// on a broken stream the server side ends with "ok" or with a pipe error depending on how far it got when the
	// pipe closed under it: not part of the record
	srvText := "(stream broken)"
	if !conn.broke {
		srvText = errS(conn.srvErr)
	}
	w.r.Event("pull", "%s <- %s: pushed=%d asked=%d received=%d broke=%v server=%v", c.name, s.name, len(conn.pushed), conn.asked, len(conn.received), conn.broke, srvText)
	// one complete exchange makes the two stores equal (both know the whole ACL, nothing failed)
	if !conn.broke && conn.srvErr == nil && !w.lagRun && c.plan == nil && s.plan == nil {
		a, b := stored(c), stored(s)
		if fmt.Sprint(a) != fmt.Sprint(b) {
			w.r.Fail("exchange-incomplete", "", "after one complete sync exchange %s holds %d values and %s holds %d: %s", c.name, len(a), s.name, len(b), firstDiff(a, b))
		}
		w.r.Probe("complete-exchange")
	}
}

// receiveSomePrefix: the node applied an unknown prefix of kvs; the model follows the store as long as the
// store holds a state reachable that way.
func (n *node) receiveSomePrefix(kvs []*spacesyncproto.StoreKeyValue) {
	reach := map[string][]slotVal{}
	tmp := &node{w: n.w, idx: n.idx, name: n.name, dev: n.dev, acl: n.acl, aclIdx: n.aclIdx, model: map[string]slotVal{}}
	for k, v := range n.model {
		tmp.model[k] = v
	}
	for _, kv := range kvs {
		tmp.receive([]*spacesyncproto.StoreKeyValue{kv})
		if v, ok := tmp.model[kv.KeyPeerId]; ok {
			reach[kv.KeyPeerId] = append(reach[kv.KeyPeerId], v)
		}
	}
	_ = n.store.InnerStorage().IterateValues(ctxb, func(kv innerstorage.KeyValue) (bool, error) {
		for _, v := range reach[kv.KeyPeerId] {
			if v.ts == kv.TimestampMicro && bytes.Equal(v.value, kv.Value.Value) {
				n.model[kv.KeyPeerId] = v
			}
		}
		return true, nil
	})
}

// stored: what a node's store really holds (slot@timestamp), read back from storage.
func stored(n *node) []string {
	var l []string
	_ = n.store.InnerStorage().IterateValues(ctxb, func(kv innerstorage.KeyValue) (bool, error) {
		l = append(l, fmt.Sprintf("%s@%d", slotName(kv.KeyPeerId), kv.TimestampMicro))
		return true, nil
	})
	sort.Strings(l)
	return l
}

func firstDiff(a, b []string) string {
	in := func(l []string, x string) bool {
		i := sort.SearchStrings(l, x)
		return i < len(l) && l[i] == x
	}
	for _, x := range a {
		if !in(b, x) {
			return "only the first holds " + x
		}
	}
	for _, x := range b {
		if !in(a, x) {
			return "only the second holds " + x
		}
	}
	return "same entries"
}

// ---- the run ---------------------------------------------------------------------------------------------

func runC12(r *core.Run) {
	s := r.Src
	w := &world{r: r, accs: map[string]*simlib.Account{}}
	w.dir = simlib.ScratchDir("kv")
	defer os.RemoveAll(w.dir)
	owner := simlib.NewAccount("owner")
	w.accs["owner"] = owner
	w.space = simlib.NewSpace(owner, 0)
	w.storeId = storageId(w.space.Id)
	for _, n := range []string{"writer", "reader", "gone", "outsider"} {
		w.accs[n] = simlib.NewAccount(n)
	}
	// ACL timeline (harness's own table next to the real records)
	cur := map[string]int{"owner": pWriter}
	snap := func() {
		m := map[string]int{}
		for k, v := range cur {
			m[k] = v
		}
		w.perm = append(w.perm, m)
	}
	snap()
	w.space.Add(list.AclPermissionsWriter, w.accs["writer"], w.accs["gone"])
	cur["writer"], cur["gone"] = pWriter, pWriter
	snap()
	w.space.Add(list.AclPermissionsReader, w.accs["reader"])
	cur["reader"] = pReader
	snap()
	w.space.Remove(w.accs["gone"])
	cur["gone"] = pNone
	snap()
	w.recIds = append(w.recIds, w.space.Payload.AclWithId.Id)
	w.recs = append(w.recs, nil)
	for _, rec := range w.space.Records {
		w.recIds = append(w.recIds, rec.Id)
		w.recs = append(w.recs, rec)
	}
	newDev := func(name string, acc *simlib.Account) *device {
		pk, _, err := crypto.GenerateRandomEd25519KeyPair()
		must(err)
		d := &device{name: name, acc: acc, keys: accountdata.New(pk, acc.Keys.SignKey)}
		w.devices = append(w.devices, d)
		return d
	}
	nnodes := 2 + s.Choose("nnodes", 2)
	faultNode := -1
	if s.Flip("storage-faults", 0.3) {
		faultNode = s.Choose("fault-node", nnodes)
	}
	accOrder := []string{"owner", "writer", "owner", "writer"}
	for i := 0; i < nnodes; i++ {
		an := accOrder[i]
		w.addNode(newDev(fmt.Sprintf("%s-dev%d", an, i), w.accs[an]), i == faultNode)
	}
	// byzantine devices (not nodes): of the reader, the removed member, an outsider, and a second device of the writer
	byzDevs := []*device{newDev("reader-dev", w.accs["reader"]), newDev("gone-dev", w.accs["gone"]), newDev("outsider-dev", w.accs["outsider"]), newDev("writer-dev-x", w.accs["writer"])}
	w.lagRun = s.Flip("acl-lag", 0.25)
	for _, n := range w.nodes {
		if w.lagRun && n.idx > 0 {
			n.aclTo(1 + s.Choose("lag-to", 3))
		} else {
			n.aclTo(3)
		}
	}
	w.keys = []string{"ka", "kb", "kc"}[:1+s.Choose("nkeys", 3)]
	faultFree := s.Flip("faultfree", 0.1)
	steps := s.Range("steps", 10, 70)
	// a store large enough for a sync answer to carry elements for several ranges at once (rare: it is slow)
	if s.Flip("big-store", 0.04) {
		n0 := w.nodes[0]
		cnt := 257 + s.Choose("big-count", 140)
		for i := 0; i < cnt; i++ {
			time.Sleep(time.Millisecond)
			before := len(w.msgs)
			must(n0.store.Set(ctxb, fmt.Sprintf("big%03d", i), []byte("v")))
			w.flushOut()
			if len(w.msgs) > before {
				kvs := &spacesyncproto.StoreKeyValues{}
				must(kvs.UnmarshalVT(w.msgs[before].bytes))
				n0.receive(kvs.KeyValues)
				if i >= 3 {
					w.msgs = w.msgs[:before] // never delivered: only a pull brings them over
				}
			}
		}
		if steps > 15 {
			steps = 15
		}
		w.big = true
		r.Probe("big-store")
		r.SetCfg("big_store", cnt)
	}
	r.SetCfg("nodes", nnodes)
	r.SetCfg("acl_lag", w.lagRun)
	r.SetCfg("storage_fault_node", faultNode)
	wf := 2
	if faultFree {
		wf = 0
	}
	nset := 0
	for i := 0; i < steps; i++ {
		w.flushOut()
		nm := len(w.msgs)
		wFailWrite, wRegroup := wf, 2
		if faultNode >= 0 {
			// runs with a failing disk spend more of their events on regrouped batches and failing writes
			wFailWrite, wRegroup = 3*wf, 5
		}
		act := s.Weighted("action", []int{8, 8 * min1(nm), wf * min1(nm), wf * min1(nm), 3, wf * 2, wFailWrite, wRegroup * min1(nm-1)})
		switch act {
		case 0: // local Set
			n := w.nodes[s.Choose("node", len(w.nodes))]
			key := w.keys[s.Choose("key", len(w.keys))]
			time.Sleep(time.Duration(1+s.Choose("dt", 5)) * time.Millisecond)
			nset++
			val := []byte(fmt.Sprintf("value-%d", nset))
			armed := false
			if n.plan != nil && s.Flip("fail-write", 0.5) {
				n.plan.Calls, n.plan.FailAt, n.plan.Armed = nil, 1+s.Choose("fail-at", 4), true
				armed = true
			}
			before := len(w.msgs)
			err := n.store.Set(ctxb, key, val)
			w.flushOut()
			if armed {
				n.plan.Armed = false
				if n.plan.Fired > 0 {
					r.Fault("storage-error")
					n.plan.Fired = 0
				}
			}
			if err == nil {
				// the model learns the value from what the node itself broadcast
				if len(w.msgs) > before {
					kvs := &spacesyncproto.StoreKeyValues{}
					must(kvs.UnmarshalVT(w.msgs[before].bytes))
					n.receive(kvs.KeyValues)
				} else if nnodes > 1 {
					r.Fail("set-not-broadcast", "", "%s: Set succeeded but nothing was broadcast", n.name)
				}
			}
			r.Event("set", "%s %s: %v", n.name, key, errS(err))
			n.check("after local set")
		case 1:
			j := s.Choose("msg", nm)
			if j > 0 {
				r.Fault("reorder")
			}
			m := w.msgs[j]
			w.msgs = append(w.msgs[:j], w.msgs[j+1:]...)
			w.deliver(m)
		case 2:
			j := s.Choose("msg", nm)
			w.msgs = append(w.msgs[:j], w.msgs[j+1:]...)
			r.Fault("drop")
			r.Event("drop", "")
		case 3:
			m := *w.msgs[s.Choose("msg", nm)]
			w.seq++
			m.seq = w.seq
			w.msgs = append(w.msgs, &m)
			r.Fault("duplicate")
			r.Event("duplicate", "")
		case 4: // pull
			ci := s.Choose("pull-c", len(w.nodes))
			si := s.Choose("pull-s", len(w.nodes)-1)
			if si >= ci {
				si++
			}
			breakAt := -1
			if !faultFree && s.Flip("break", 0.25) {
				breakAt = s.Choose("break-at", 4)
			}
			w.pull(w.nodes[ci], w.nodes[si], breakAt, 1+s.Choose("batch", 3))
		case 5: // byzantine or unusual value pushed to a node
			dst := w.nodes[s.Choose("byz-dst", len(w.nodes))]
			kv, what := w.byzValue(byzDevs)
			batch := []*spacesyncproto.StoreKeyValue{kv}
			if s.Flip("byz-batch", 0.4) {
				// one device, several values citing different ACL records in one batch: the verdict is per value
				dev := byzDevs[s.Choose("batch-dev", len(byzDevs))]
				batch = nil
				what = dev.name + " cites"
				for k := 0; k < 2+s.Choose("batch-more", 2); k++ {
					acl := w.recIds[s.Choose("batch-acl", len(w.recIds))]
					key := w.keys[s.Choose("batch-key", len(w.keys))]
					batch = append(batch, w.craft(dev, dev.acc, key, time.Now().UnixMicro()+int64(s.Choose("batch-ts", 2000))-1000, acl, []byte(fmt.Sprintf("batch-%d", k))))
					what += fmt.Sprintf(" #%d", w.recIndex(acl))
				}
				what += " in one batch"
				r.Probe("byzantine-batch")
			}
			b, err := (&spacesyncproto.StoreKeyValues{KeyValues: batch}).MarshalVT()
			must(err)
			w.seq++
			r.Fault("byzantine-value")
			w.deliver(&msg{seq: w.seq, src: -1, dst: dst.idx, bytes: b, note: "[" + what + "]"})
		case 7: // regrouping: two messages in flight to the same node arrive as one batch
			a := w.msgs[s.Choose("merge-a", nm)]
			var others []*msg
			for _, m := range w.msgs {
				if m != a && m.dst == a.dst {
					others = append(others, m)
				}
			}
			if len(others) == 0 {
				continue
			}
			b := others[s.Choose("merge-b", len(others))]
			ka, kb := &spacesyncproto.StoreKeyValues{}, &spacesyncproto.StoreKeyValues{}
			must(ka.UnmarshalVT(a.bytes))
			must(kb.UnmarshalVT(b.bytes))
			ka.KeyValues = append(ka.KeyValues, kb.KeyValues...)
			a.bytes, _ = ka.MarshalVT()
			a.note = fmt.Sprintf("%d values (regrouped)", len(ka.KeyValues))
			for j, m := range w.msgs {
				if m == b {
					w.msgs = append(w.msgs[:j], w.msgs[j+1:]...)
					break
				}
			}
			r.Fault("regroup")
			r.Event("regroup", "#%d and #%d to N%d become one batch", a.seq, b.seq, a.dst)
		case 6: // a failing write while applying a remote batch
			var cand []*node
			for _, n := range w.nodes {
				if n.plan != nil {
					cand = append(cand, n)
				}
			}
			if len(cand) == 0 || nm == 0 {
				continue
			}
			n := cand[0]
			var mine []*msg
			for _, m := range w.msgs {
				if m.dst == n.idx {
					mine = append(mine, m)
				}
			}
			if len(mine) == 0 {
				continue
			}
			m := mine[s.Choose("fmsg", len(mine))]
			n.plan.Calls, n.plan.FailAt, n.plan.Armed = nil, 1+s.Choose("fail-at", 7), true
			kvs := &spacesyncproto.StoreKeyValues{}
			must(kvs.UnmarshalVT(m.bytes))
			if s.Flip("fault-on-burst", 0.5) {
				// everything in flight from that sender arrives as one batch (several versions of a slot together)
				for _, o := range mine {
					if o != m && o.src == m.src {
						more := &spacesyncproto.StoreKeyValues{}
						must(more.UnmarshalVT(o.bytes))
						kvs.KeyValues = append(kvs.KeyValues, more.KeyValues...)
					}
				}
				r.Probe("failing-write-on-burst")
			}
			err := n.store.SetRaw(ctxb, kvs.KeyValues...)
			n.plan.Armed = false
			if n.plan.Fired > 0 {
				r.Fault("storage-error")
				n.plan.Fired = 0
			}
			if err == nil {
				n.receive(kvs.KeyValues)
			}
			r.Event("deliver-with-storage-fault", "#%d -> %s: %v (message stays in flight)", m.seq, n.name, errS(err))
			n.check("after failed remote write")
		}
	}
	// heal: everything in flight is delivered, everybody learns the whole ACL, every ordered pair syncs once
	w.flushOut()
	for len(w.msgs) > 0 {
		m := w.msgs[0]
		w.msgs = w.msgs[1:]
		w.deliver(m)
		w.flushOut()
	}
	if !w.lagRun {
		for _, a := range w.nodes {
			for _, b := range w.nodes {
				if a != b {
					w.pull(a, b, -1, 2)
				}
			}
		}
		ref := w.nodes[0]
		for _, n := range w.nodes[1:] {
			if fmt.Sprint(contents(ref)) != fmt.Sprint(contents(n)) {
				r.Fail("no-convergence", "", "after one sync exchange per ordered pair %s and %s differ:\n %v\n %v", ref.name, n.name, contents(ref), contents(n))
			}
			if ref.store.InnerStorage().Diff().Hash() != n.store.InnerStorage().Diff().Hash() {
				r.Fail("no-convergence", "hash", "%s and %s hold equal contents but advertise different hashes", ref.name, n.name)
			}
		}
	}
	for _, n := range w.nodes {
		n.check("end")
		_ = n.raw.Close()
	}
	nf := 0
	for _, v := range r.Faults {
		nf += v
	}
	r.Nontriv = nset >= 2 && (nf > 0 || faultFree)
	r.State(core.Mix(0, fmt.Sprint(len(w.nodes[0].model)), fmt.Sprint(nnodes)))
}

func contents(n *node) []string {
	var l []string
	for s, v := range n.model {
		l = append(l, fmt.Sprintf("%s@%d", slotName(s), v.ts))
	}
	sort.Strings(l)
	return l
}

func min1(x int) int {
	if x > 0 {
		return 1
	}
	return 0
}

// byzValue builds a value a correct store must refuse - or an unusual valid one.
func (w *world) byzValue(byz []*device) (*spacesyncproto.StoreKeyValue, string) {
	s := w.r.Src
	key := w.keys[s.Choose("bkey", len(w.keys))]
	now := time.Now().UnixMicro()
	ts := now + int64(s.Choose("bts", 2000)) - 1000
	dev := byz[s.Choose("bdev", len(byz))]
	acl := w.recIds[s.Choose("bacl", len(w.recIds))]
	switch s.Choose("byz-kind", 8) {
	case 0: // signed by whoever owns the device, citing any record: valid iff a writer there
		return w.craft(dev, dev.acc, key, ts, acl, []byte("byz")), fmt.Sprintf("%s cites #%d", dev.name, w.recIndex(acl))
	case 1: // relabelled: filed under another slot
		kv := w.craft(dev, dev.acc, key, ts, acl, []byte("byz"))
		if s.Flip("relabel-own-longer-key", 0.4) {
			// the slot of a longer key of the same device, of which the signed key is a prefix
			kv.KeyPeerId = key + []string{"x", "-", "2"}[s.Choose("key-suffix", 3)] + "-" + dev.keys.PeerKey.GetPublic().PeerId()
			return kv, fmt.Sprintf("%s relabelled to the slot of a longer key of its own", dev.name)
		}
		other := w.nodes[s.Choose("victim", len(w.nodes))].dev
		kv.KeyPeerId = key + "-" + other.keys.PeerKey.GetPublic().PeerId()
		return kv, fmt.Sprintf("%s relabelled to the slot of %s", dev.name, other.name)
	case 2: // account signature by somebody else
		kv := w.craft(dev, w.accs["writer"], key, ts, acl, []byte("byz"))
		kv.IdentitySignature, _ = w.accs["outsider"].Keys.SignKey.Sign(kv.Value)
		return kv, "account signature by another key"
	case 3: // device signature swapped with the account signature
		kv := w.craft(dev, w.accs["writer"], key, ts, w.recIds[1], []byte("byz"))
		kv.PeerSignature, kv.IdentitySignature = kv.IdentitySignature, kv.PeerSignature
		return kv, "signatures swapped"
	case 4: // a byte of the signed value edited after signing
		kv := w.craft(byz[3], w.accs["writer"], key, ts, w.recIds[1], []byte("byz-edit"))
		kv.Value[len(kv.Value)-1] ^= 1
		return kv, "value edited after signing"
	case 5: // unknown ACL record
		id, _ := cidutil.NewCidFromBytes([]byte("no-such-record"))
		return w.craft(byz[3], w.accs["writer"], key, ts, id, []byte("byz")), "cites an unknown ACL record"
	case 6: // valid value by the writer's second device with an old or future timestamp
		return w.craft(byz[3], w.accs["writer"], key, now+int64(s.Choose("skew", 4000000))-2000000, w.recIds[1+s.Choose("wacl", 3)], []byte("writer-x")), "writer's other device, skewed clock"
	default: // replays a node's own slot name with the removed member's keys
		kv := w.craft(byz[1], w.accs["gone"], key, ts, w.recIds[3], []byte("gone"))
		return kv, "removed member citing the record that removed it"
	}
}

func (w *world) recIndex(id string) int {
	for i, x := range w.recIds {
		if x == id {
			return i
		}
	}
	return -1
}
