// Package treesim: object-tree replicas over a simulated network (C01 C02 C06 C09).
// Real code: objecttree (verifying builder, validator, tree, treebuilder, reduce, load iterator,
// storage), synctree (sync tree, handler, request factory, head update, response producer/collector,
// remote getter), list.AclList, headstorage, spacestorage, any-store.
// Harness-owned: transport (SyncClient + message multiset), sync status (no-op), peers.
package treesim

import (
	"context"
	"errors"
	"fmt"
	"os"
	"path/filepath"
	"sort"
	"strings"
	"testing"

	anystore "github.com/anyproto/any-store"
	"google.golang.org/protobuf/proto"

	"github.com/anyproto/any-sync/commonspace/object/acl/list"
	"github.com/anyproto/any-sync/commonspace/object/acl/recordverifier"
	"github.com/anyproto/any-sync/commonspace/object/tree/objecttree"
	"github.com/anyproto/any-sync/commonspace/object/tree/synctree"
	"github.com/anyproto/any-sync/commonspace/object/tree/synctree/response"
	"github.com/anyproto/any-sync/commonspace/object/tree/synctree/updatelistener"
	"github.com/anyproto/any-sync/commonspace/object/tree/treechangeproto"
	"github.com/anyproto/any-sync/commonspace/object/tree/treestorage"
	"github.com/anyproto/any-sync/commonspace/spacestorage"
	"github.com/anyproto/any-sync/commonspace/spacesyncproto"
	"github.com/anyproto/any-sync/commonspace/sync/objectsync/objectmessages"
	"github.com/anyproto/any-sync/commonspace/sync/syncdeps"
	"github.com/anyproto/any-sync/commonspace/syncstatus"
	"github.com/anyproto/any-sync/net/peer"

	"verif/sim/core"
	"verif/sim/simlib"
)

var props = map[string]core.PropFn{}

func TestSim(t *testing.T) {
	core.QuietLogs()
	core.Main(t, "treesim", props)
}

var ctxb = context.Background()

type msgKind int

const (
	kHeadUpdate msgKind = iota
	kRequest
)

type message struct {
	seq      int
	kind     msgKind
	src, dst int
	bytes    []byte // marshalled ObjectSyncMessage
	note     string
	corrupt  bool
}

// stream is an ordered, reliable-or-broken sequence of response batches from src (responder) to dst (requester).
type stream struct {
	seq      int
	src, dst int
	batches  [][]byte
	next     int
}

type replica struct {
	w      *world
	idx    int
	name   string
	acc    *simlib.Account
	dir    string
	db     anystore.DB
	ss     spacestorage.SpaceStorage
	acl    list.AclList
	tree   synctree.SyncTree
	client *simClient
	up     bool
	st     objecttree.Storage // cached read handle on the tree storage (reset on restart)
	// passive receivers take no part in the run; they get the recorded head updates in the C06 redelivery leg
	passive bool
	// C06 bookkeeping
	lastSeq  []string          // sequence presented to consumers after the last event on this replica
	orderIds map[string]string // order id first seen for each stored change
	// C02 bookkeeping
	aclIdx   int             // index of the last scripted ACL record this replica holds
	authSeen map[string]bool // stored changes already judged admissible on this replica
}

type world struct {
	probeAdds int // edits made while a probe streams its batches
	r         *core.Run
	dir       string
	space     *simlib.Space
	accs      []*simlib.Account // accs[0] = owner
	treeId    string
	root      *treechangeproto.RawTreeChangeWithId
	reps      []*replica
	msgs      []*message
	streams   []*stream
	seq       int
	// ground truth of honest changes: id -> raw bytes, parents, snapshot base
	created map[string][]byte
	order   []string // creation order of honest changes
	// recorded real messages (for the C06 redelivery leg)
	recorded []*message
	record   bool
	// options
	encrypted bool
	opts      treeOpts
	cloneSeq  int
	script    *aclScript
	byzSeq    int
	byzIds    map[string]bool
	huLog     []*message // one copy of every broadcast head update (for passive receivers)
}

// active returns the replicas that take part in the run (everything but passive receivers).
func (w *world) active() []*replica {
	var out []*replica
	for _, rep := range w.reps {
		if !rep.passive {
			out = append(out, rep)
		}
	}
	return out
}

func peerName(i int) string { return fmt.Sprintf("p%d", i) }

func newWorld(r *core.Run, nreps int, nwriters int) *world {
	w := &world{r: r, created: map[string][]byte{}}
	w.dir = simlib.ScratchDir("tree")
	owner := simlib.NewAccount("owner")
	w.accs = append(w.accs, owner)
	w.space = simlib.NewSpace(owner, 0)
	for i := 1; i < nreps || i <= nwriters; i++ {
		w.accs = append(w.accs, simlib.NewAccount(fmt.Sprintf("acc%d", i)))
	}
	return w
}

func (w *world) cleanup() {
	for _, rep := range w.reps {
		rep.shutdown()
	}
	_ = os.RemoveAll(w.dir)
}

// addReplica creates replica i owned by account acc with a fresh space storage and all ACL records
// of the space applied.
func (w *world) addReplica(acc *simlib.Account) *replica {
	rep := &replica{w: w, idx: len(w.reps), acc: acc}
	rep.name = peerName(rep.idx)
	rep.dir = filepath.Join(w.dir, rep.name)
	must(os.MkdirAll(rep.dir, 0o755))
	rep.client = &simClient{RequestFactory: synctree.NewRequestFactory(w.space.Id), rep: rep}
	rep.openStorage(true)
	w.reps = append(w.reps, rep)
	return rep
}

func must(err error) {
	if err != nil {
		panic(err)
	}
}

func (rep *replica) openStorage(create bool) {
	w := rep.w
	rep.db = simlib.OpenStore(filepath.Join(rep.dir, "store.db"))
	var err error
	if create {
		rep.ss, err = spacestorage.Create(ctxb, rep.db, w.space.Payload)
	} else {
		rep.ss, err = spacestorage.New(ctxb, w.space.Id, rep.db)
	}
	must(err)
	aclSt, err := rep.ss.AclStorage()
	must(err)
	rep.acl, err = list.BuildAclListWithIdentity(rep.acc.Keys, aclSt, recordverifier.NewValidateFull())
	must(err)
	rep.up = true
}

func (rep *replica) applyAcl(recs ...interface{ GetId() string }) {}

func (rep *replica) shutdown() {
	if rep.db != nil {
		_ = rep.db.Close()
		rep.db = nil
	}
	rep.up = false
	rep.tree = nil
	rep.st = nil
}

func (rep *replica) treeStorage() objecttree.Storage {
	if rep.st == nil {
		st, err := rep.ss.TreeStorage(ctxb, rep.w.treeId)
		if err != nil {
			rep.w.r.Fail("storage-unreadable", "", "%s: tree storage: %v", rep.name, err)
		}
		rep.st = st
	}
	return rep.st
}

func (rep *replica) deps() synctree.BuildDeps {
	var l updatelistener.UpdateListener
	if rep.w.opts.order {
		l = &orderListener{rep: rep}
	}
	return synctree.BuildDeps{
		Listener:        l,
		SpaceId:         rep.w.space.Id,
		SyncClient:      rep.client,
		AclList:         rep.acl,
		SpaceStorage:    rep.ss,
		OnClose:         func(string) {},
		SyncStatus:      syncstatus.NewNoOpSyncStatus(),
		PeerGetter:      rep,
		BuildObjectTree: objecttree.BuildObjectTree,
	}
}

func (rep *replica) GetResponsiblePeers(ctx context.Context) ([]peer.Peer, error) {
	return nil, errors.New("no responsible peers in simulation")
}

// restart discards the in-memory objects, reopens the database and rebuilds ACL and tree from storage.
func (rep *replica) restart() {
	rep.shutdown()
	rep.openStorage(false)
	t, err := synctree.BuildSyncTreeOrGetRemote(ctxb, rep.w.treeId, rep.deps())
	if err != nil {
		rep.w.r.Fail("reopen-failed", "", "%s: rebuilding the tree from storage after restart failed: %v", rep.name, err)
	}
	rep.tree = t
}

// ---- transport ---------------------------------------------------------------------------------

type simClient struct {
	synctree.RequestFactory
	rep *replica
	// muted suppresses sends (used while probing clones)
	muted bool
}

func (c *simClient) Broadcast(ctx context.Context, hu *objectmessages.HeadUpdate) error {
	if c.muted || c.rep.passive {
		return nil
	}
	w := c.rep.w
	logged := false
	for _, other := range w.reps {
		if other.idx == c.rep.idx || c.rep.passive {
			continue
		}
		// exactly what streampool's stream.write does per peer: Copy, SetPeerId, ProtoMessage
		cp := hu.Copy().(*objectmessages.HeadUpdate)
		cp.SetPeerId(other.name)
		pm, err := cp.ProtoMessage()
		if err != nil {
			return err
		}
		b, err := pm.(*spacesyncproto.ObjectSyncMessage).MarshalVT()
		if err != nil {
			return err
		}
		w.checkAdvertisedHU(c.rep, b)
		if other.passive {
			if !logged {
				logged = true
				w.huLog = append(w.huLog, &message{kind: kHeadUpdate, src: c.rep.idx, dst: -1, bytes: b})
			}
			continue
		}
		w.enqueue(&message{kind: kHeadUpdate, src: c.rep.idx, dst: other.idx, bytes: b})
	}
	return nil
}

func (c *simClient) QueueRequest(ctx context.Context, req syncdeps.Request) error {
	if c.muted || c.rep.passive {
		return nil
	}
	return c.rep.w.sendRequest(c.rep, req)
}

func (w *world) sendRequest(from *replica, req syncdeps.Request) error {
	pm, err := req.Proto()
	if err != nil {
		return err
	}
	b, err := pm.(*spacesyncproto.ObjectSyncMessage).MarshalVT()
	if err != nil {
		return err
	}
	dst := -1
	for _, o := range w.reps {
		if o.name == req.PeerId() {
			dst = o.idx
		}
	}
	if dst < 0 {
		return fmt.Errorf("unknown peer %s", req.PeerId())
	}
	w.checkAdvertisedReq(from, b)
	w.enqueue(&message{kind: kRequest, src: from.idx, dst: dst, bytes: b})
	return nil
}

// SendTreeRequest is the synchronous fetch used when a tree is not stored locally.
func (c *simClient) SendTreeRequest(ctx context.Context, req syncdeps.Request, collector syncdeps.ResponseCollector) error {
	w := c.rep.w
	pm, err := req.Proto()
	if err != nil {
		return err
	}
	b, err := pm.(*spacesyncproto.ObjectSyncMessage).MarshalVT()
	if err != nil {
		return err
	}
	var dst *replica
	for _, o := range w.reps {
		if o.name == req.PeerId() {
			dst = o
		}
	}
	if dst == nil || dst.tree == nil {
		return fmt.Errorf("peer %s unavailable", req.PeerId())
	}
	batches, _, err := w.serveRequest(dst, c.rep.idx, b)
	if err != nil {
		return err
	}
	for _, bb := range batches {
		msg := &spacesyncproto.ObjectSyncMessage{}
		if err := msg.UnmarshalVT(bb); err != nil {
			return err
		}
		resp := collector.NewResponse()
		if err := resp.(*response.Response).SetProtoMessage(msg); err != nil {
			return err
		}
		if err := collector.CollectResponse(ctx, dst.name, req.ObjectId(), resp); err != nil {
			return err
		}
	}
	return nil
}

func (w *world) enqueue(m *message) {
	w.seq++
	m.seq = w.seq
	w.msgs = append(w.msgs, m)
	if w.record {
		w.recorded = append(w.recorded, m)
	}
}

type noQueue struct{}

func (noQueue) UpdateQueueSize(size uint64, msgType int, add bool) {}

// serveRequest runs the responder side of a full-sync request: returns the marshalled response
// batches and the counter request (if any).
func (w *world) serveRequest(responder *replica, requester int, reqBytes []byte) (batches [][]byte, counter syncdeps.Request, err error) {
	msg := &spacesyncproto.ObjectSyncMessage{}
	if err = msg.UnmarshalVT(reqBytes); err != nil {
		return nil, nil, err
	}
	rq := objectmessages.NewByteRequest(peerName(requester), msg.SpaceId, msg.ObjectId, msg.Payload)
	ctx := peer.CtxWithPeerId(ctxb, peerName(requester))
	counter, err = responder.tree.HandleStreamRequest(ctx, rq, noQueue{}, func(resp proto.Message) error {
		b, e := resp.(*spacesyncproto.ObjectSyncMessage).MarshalVT()
		if e != nil {
			return e
		}
		w.checkAdvertisedResp(responder, b)
		batches = append(batches, b)
		return nil
	})
	return
}

// deliver hands message m to its destination through the real handlers.
func (w *world) deliver(m *message) {
	dst := w.reps[m.dst]
	if !dst.up || dst.tree == nil {
		w.r.Event("deliver-down", "#%d to %s (down): lost", m.seq, dst.name)
		return
	}
	msg := &spacesyncproto.ObjectSyncMessage{}
	if err := msg.UnmarshalVT(m.bytes); err != nil {
		w.r.Event("deliver-garbage", "#%d undecodable: %v", m.seq, err)
		return
	}
	ctx := peer.CtxWithPeerId(ctxb, peerName(m.src))
	switch m.kind {
	case kHeadUpdate:
		hu := &objectmessages.HeadUpdate{}
		if err := hu.SetProtoMessage(msg); err != nil {
			w.r.Event("deliver-garbage", "#%d bad head update: %v", m.seq, err)
			return
		}
		hu.SetPeerId(peerName(m.src))
		before := dst.headsKey()
		var snap applySnap
		if w.opts.auth {
			snap = w.snapState(dst)
		}
		req, err := dst.tree.HandleHeadUpdate(ctx, syncstatus.NewNoOpSyncStatus(), hu)
		if w.opts.auth {
			w.rollbackCheck(dst, snap, err, fmt.Sprintf("head update #%d %s", m.seq, m.note))
			w.authCheck(dst, "after head update")
		}
		w.r.Event("deliver-hu", "#%d %s->%s %s heads %s->%s req=%v err=%v", m.seq, peerName(m.src), dst.name, m.note, before, dst.headsKey(), req != nil, errStr(err))
		if err != nil && !m.corrupt {
			w.noteHonestReject(dst, "head update", err)
		}
		if req != nil && !dst.passive {
			must(w.sendRequest(dst, req))
		}
	case kRequest:
		batches, counter, err := w.serveRequest(dst, m.src, m.bytes)
		w.r.Event("deliver-req", "#%d %s->%s batches=%d counter=%v err=%v", m.seq, peerName(m.src), dst.name, len(batches), counter != nil, errStr(err))
		if len(batches) > 0 {
			w.seq++
			w.streams = append(w.streams, &stream{seq: w.seq, src: dst.idx, dst: m.src, batches: batches})
		}
		if counter != nil {
			must(w.sendRequest(dst, counter))
		}
	}
}

func errStr(err error) string {
	if err == nil {
		return "nil"
	}
	s := err.Error()
	if len(s) > 80 {
		s = s[:80]
	}
	return s
}

func (w *world) noteHonestReject(dst *replica, what string, err error) {
	// an authentic, in-order-irrelevant message of an honest peer may legitimately be refused (e.g.
	// its ancestors are unknown yet); counted as a probe, never a violation by itself
	w.r.Probe("honest-" + strings.ReplaceAll(what, " ", "-") + "-refused")
}

// deliverBatch delivers the next batch of a stream.
func (w *world) deliverBatch(s *stream) {
	dst := w.reps[s.dst]
	b := s.batches[s.next]
	s.next++
	if !dst.up || dst.tree == nil {
		w.r.Event("batch-down", "stream#%d to %s (down)", s.seq, dst.name)
		return
	}
	msg := &spacesyncproto.ObjectSyncMessage{}
	must(msg.UnmarshalVT(b))
	resp := &response.Response{}
	if err := resp.SetProtoMessage(msg); err != nil {
		w.r.Event("batch-garbage", "stream#%d: %v", s.seq, err)
		return
	}
	before := dst.headsKey()
	var snap applySnap
	if w.opts.auth {
		snap = w.snapState(dst)
	}
	err := dst.tree.HandleResponse(peer.CtxWithPeerId(ctxb, peerName(s.src)), peerName(s.src), msg.ObjectId, resp)
	if w.opts.auth {
		w.rollbackCheck(dst, snap, err, fmt.Sprintf("response batch of stream#%d", s.seq))
		w.authCheck(dst, "after response batch")
	}
	w.r.Event("deliver-batch", "stream#%d %s->%s batch %d/%d changes=%d heads %s->%s err=%v", s.seq, peerName(s.src), dst.name, s.next, len(s.batches), len(resp.Changes), before, dst.headsKey(), errStr(err))
}

func (w *world) removeMsg(i int) *message {
	m := w.msgs[i]
	w.msgs = append(w.msgs[:i], w.msgs[i+1:]...)
	return m
}

func (w *world) pruneStreams() {
	out := w.streams[:0]
	for _, s := range w.streams {
		if s.next < len(s.batches) {
			out = append(out, s)
		}
	}
	w.streams = out
}

// drain delivers everything in flight, oldest first, until the network is empty.
func (w *world) drain(limit int) {
	for n := 0; n < limit; n++ {
		w.pruneStreams()
		if len(w.msgs) == 0 && len(w.streams) == 0 {
			return
		}
		if len(w.streams) > 0 && (len(w.msgs) == 0 || w.streams[0].seq < w.msgs[0].seq) {
			st := w.streams[0]
			w.deliverBatch(st)
			w.checkReplica(w.reps[st.dst], "drain")
		} else {
			m := w.removeMsg(0)
			w.deliver(m)
			w.checkReplica(w.reps[m.dst], "drain")
		}
	}
	w.r.Fail("no-quiescence", "", "network did not drain within %d deliveries after faults stopped%s", limit, w.divergenceReport())
}

// ---- replica state views -------------------------------------------------------------------------

type storedChange struct {
	id       string
	prev     []string
	snapshot string
	order    string
	raw      []byte
}

func (rep *replica) stored() (res []storedChange, byId map[string]storedChange) {
	st := rep.treeStorage()
	byId = map[string]storedChange{}
	err := st.GetAfterOrder(ctxb, "", func(ctx context.Context, c objecttree.StorageChange) (bool, error) {
		sc := storedChange{id: c.Id, prev: append([]string{}, c.PrevIds...), snapshot: c.SnapshotId, order: c.OrderId, raw: append([]byte{}, c.RawChange...)}
		res = append(res, sc)
		byId[c.Id] = sc
		return true, nil
	})
	if err != nil {
		rep.w.r.Fail("storage-unreadable", "", "%s: iterate: %v", rep.name, err)
	}
	return
}

func (rep *replica) storedIds() []string {
	res, _ := rep.stored()
	ids := make([]string, 0, len(res))
	for _, c := range res {
		ids = append(ids, c.id)
	}
	sort.Strings(ids)
	return ids
}

func (rep *replica) heads() []string {
	if rep.tree == nil {
		return nil
	}
	rep.tree.Lock()
	h := append([]string{}, rep.tree.Heads()...)
	rep.tree.Unlock()
	sort.Strings(h)
	return h
}

func short(id string) string {
	if len(id) > 6 {
		return id[len(id)-6:]
	}
	return id
}

func shorts(ids []string) string {
	s := make([]string, len(ids))
	for i, id := range ids {
		s[i] = short(id)
	}
	return "[" + strings.Join(s, ",") + "]"
}

func (rep *replica) headsKey() string { return shorts(rep.heads()) }

// checkReplica evaluates the step invariants of C01 on one replica.
func (w *world) checkReplica(rep *replica, when string) {
	if !rep.up || rep.tree == nil {
		return
	}
	res, byId := rep.stored()
	// (i) closure, (iii) order respects causality
	for _, c := range res {
		for _, p := range c.prev {
			pc, ok := byId[p]
			if !ok {
				w.r.Fail("storage-not-closed", "parent", "%s (%s): stored change %s has parent %s which is not stored", rep.name, when, short(c.id), short(p))
			}
			if !(pc.order < c.order) {
				w.r.Fail("order-violates-causality", "", "%s (%s): change %s order %q is not after its parent %s order %q", rep.name, when, short(c.id), c.order, short(p), pc.order)
			}
		}
		if c.snapshot != "" {
			if _, ok := byId[c.snapshot]; !ok {
				w.r.Fail("storage-not-closed", "snapshot", "%s (%s): stored change %s has snapshot base %s which is not stored", rep.name, when, short(c.id), short(c.snapshot))
			}
		}
	}
	// (ii) recorded heads = tree heads, heads stored
	entry, err := rep.ss.HeadStorage().GetEntry(ctxb, w.treeId)
	if err != nil {
		w.r.Fail("head-entry-missing", "", "%s (%s): %v", rep.name, when, err)
	}
	eh := append([]string{}, entry.Heads...)
	sort.Strings(eh)
	th := rep.heads()
	if strings.Join(eh, ",") != strings.Join(th, ",") {
		sig := ""
		if w.opts.auth && w.lostHeadsOutsideCommonSnapshot(rep, strings.Join(eh, ","), strings.Join(th, ",")) {
			sig = "head-outside-common-snapshot" // the recorded finding of C02 seen through a rebuilt tree
		}
		w.r.Fail("heads-mismatch", sig, "%s (%s): head storage says %s, tree says %s", rep.name, when, shorts(eh), shorts(th))
	}
	for _, h := range th {
		if _, ok := byId[h]; !ok {
			w.r.Fail("head-not-stored", "", "%s (%s): head %s is not a stored change", rep.name, when, short(h))
		}
	}
	rep.tree.Lock()
	has := rep.tree.HasChanges(th...)
	rep.tree.Unlock()
	if !has {
		w.r.Fail("head-not-attached", "", "%s (%s): HasChanges(heads) is false", rep.name, when)
	}
	// the in-memory view starts at a root from which every head is reachable (a view reduced to a
	// snapshot that is not an ancestor of all heads has lost changes it still claims as heads)
	view := map[string]bool{}
	rep.tree.Lock()
	_ = rep.tree.IterateRoot(nil, func(c *objecttree.Change) bool { view[c.Id] = true; return true })
	rep.tree.Unlock()
	for _, h := range th {
		if !view[h] {
			w.r.Fail("head-not-in-view", "", "%s (%s): head %s is not reachable from the root of the in-memory tree (view of %d changes)", rep.name, when, short(h), len(view))
		}
	}
	// every stored change is an honest one (C01 runs have no byzantine input)
	for _, c := range res {
		if c.id == w.treeId {
			continue
		}
		if raw, ok := w.created[c.id]; !ok {
			w.r.Fail("unknown-change-stored", "", "%s (%s): stored change %s was never created by any replica", rep.name, when, short(c.id))
		} else if string(raw) != string(c.raw) {
			w.r.Fail("stored-bytes-differ", "", "%s (%s): stored bytes of %s differ from the created change", rep.name, when, short(c.id))
		}
	}
}

func (w *world) checkAll(when string) {
	for _, rep := range w.reps {
		w.checkReplica(rep, when)
	}
}

// ---- "advertised subset of held" -----------------------------------------------------------------

func (w *world) holds(rep *replica, ids []string, what string) {
	st := rep.treeStorage()
	for _, id := range ids {
		ok, err := st.Has(ctxb, id)
		if err != nil || !ok {
			w.r.Fail("advertised-not-held", what, "%s advertises %s in a %s but does not store it", rep.name, short(id), what)
		}
	}
}

func (w *world) checkAdvertisedHU(rep *replica, b []byte) {
	msg := &spacesyncproto.ObjectSyncMessage{}
	must(msg.UnmarshalVT(b))
	tm := &treechangeproto.TreeSyncMessage{}
	must(tm.UnmarshalVT(msg.Payload))
	hu := tm.GetContent().GetHeadUpdate()
	if hu == nil {
		return
	}
	w.holds(rep, hu.Heads, "head update")
	var ids []string
	for _, c := range hu.Changes {
		ids = append(ids, c.Id)
	}
	w.holds(rep, ids, "head update (changes)")
}

func (w *world) checkAdvertisedReq(rep *replica, b []byte) {
	msg := &spacesyncproto.ObjectSyncMessage{}
	must(msg.UnmarshalVT(b))
	tm := &treechangeproto.TreeSyncMessage{}
	must(tm.UnmarshalVT(msg.Payload))
	rq := tm.GetContent().GetFullSyncRequest()
	if rq == nil {
		return
	}
	w.holds(rep, rq.Heads, "full-sync request")
}

func (w *world) checkAdvertisedResp(rep *replica, b []byte) {
	msg := &spacesyncproto.ObjectSyncMessage{}
	must(msg.UnmarshalVT(b))
	tm := &treechangeproto.TreeSyncMessage{}
	must(tm.UnmarshalVT(msg.Payload))
	rs := tm.GetContent().GetFullSyncResponse()
	if rs == nil {
		return
	}
	var ids []string
	for _, c := range rs.Changes {
		ids = append(ids, c.Id)
	}
	w.holds(rep, ids, "full-sync response")
}

// ---- workload ------------------------------------------------------------------------------------

// createTree creates the tree on replica 0 and fetches it on all others through the wire.
func (w *world) createTree(encrypted bool) {
	w.encrypted = encrypted
	seed := make([]byte, 32)
	_, _ = w.r.Crypto.Read(seed)
	creator := w.reps[0]
	root, err := objecttree.CreateObjectTreeRoot(objecttree.ObjectTreeCreatePayload{
		PrivKey: creator.acc.Keys.SignKey, ChangeType: "sim.tree", ChangePayload: []byte("payload"),
		SpaceId: w.space.Id, IsEncrypted: encrypted, Seed: seed, Timestamp: 946684800,
	}, creator.acl)
	must(err)
	w.root = root
	w.treeId = root.Id
	t, err := synctree.PutSyncTree(ctxb, treestorage.TreeStorageCreatePayload{RootRawChange: root, Changes: []*treechangeproto.RawTreeChangeWithId{root}, Heads: []string{root.Id}}, creator.deps())
	must(err)
	creator.tree = t
	for _, rep := range w.reps[1:] {
		t, err := synctree.BuildSyncTreeOrGetRemote(peer.CtxWithPeerId(ctxb, creator.name), w.treeId, rep.deps())
		if err != nil {
			w.r.Fail("fetch-failed", "", "%s could not fetch the new tree from %s: %v", rep.name, creator.name, err)
		}
		rep.tree = t
	}
	w.msgs = nil // head updates announcing an empty tree carry nothing
}

// localAdd performs AddContent on a replica; returns the new change id ("" on error).
func (w *world) localAdd(rep *replica, snapshot bool, n int) string {
	data := []byte(fmt.Sprintf("content-%d-by-%s", n, rep.name))
	rep.tree.Lock()
	res, err := rep.tree.AddContent(ctxb, objecttree.SignableChangeContent{
		Data: data, Key: rep.acc.Keys.SignKey, IsSnapshot: snapshot, ShouldBeEncrypted: w.encrypted, Timestamp: int64(946684800 + n),
	})
	rep.tree.Unlock()
	kind := "add"
	if snapshot {
		kind = "add-snapshot"
	}
	if err != nil {
		w.r.Event(kind+"-error", "%s: %v", rep.name, errStr(err))
		return ""
	}
	for _, a := range res.Added {
		w.created[a.Id] = append([]byte{}, a.RawChange...)
		w.order = append(w.order, a.Id)
	}
	w.r.Event(kind, "%s: new head %s (prev %s)", rep.name, shorts(res.Heads), shorts(res.OldHeads))
	if w.opts.order {
		w.orderAfterLocalAdd(rep, res.Mode)
	}
	if len(res.Heads) != 1 {
		return ""
	}
	return res.Heads[0]
}

type stubPeer struct {
	peer.Peer
	id string
}

func (s stubPeer) Id() string { return s.id }

// antiEntropy: every ordered pair exchanges a full-sync request; returns whether anything changed.
func (w *world) antiEntropyRound() bool {
	before := w.fingerprint()
	for _, a := range w.active() {
		for _, b := range w.active() {
			if a.idx == b.idx || !a.up || !b.up {
				continue
			}
			if err := a.tree.SyncWithPeer(ctxb, stubPeer{id: b.name}); err != nil {
				w.r.Fail("sync-with-peer-error", "", "%s.SyncWithPeer(%s): %v", a.name, b.name, err)
			}
			w.r.Event("anti-entropy", "%s -> %s", a.name, b.name)
			w.drain(2000)
		}
	}
	return before != w.fingerprint()
}

func (w *world) fingerprint() string {
	var sb strings.Builder
	for _, rep := range w.active() {
		sb.WriteString(rep.name + ":" + strings.Join(rep.heads(), ",") + "|" + strings.Join(rep.storedIds(), ",") + ";")
	}
	return sb.String()
}

// healAndConverge: faults off, everything restarted, drain, fair anti-entropy, then the convergence oracle.
func (w *world) healAndConverge() {
	for _, rep := range w.active() {
		if !rep.up || rep.tree == nil {
			rep.restart()
			w.r.Event("heal-restart", "%s", rep.name)
		}
	}
	w.drain(5000)
	rounds := 0
	nact := len(w.active())
	for ; rounds < nact+2; rounds++ {
		if !w.antiEntropyRound() {
			break
		}
	}
	w.r.SetCfg("anti_entropy_rounds", rounds+1)
	if rounds >= nact+2 {
		w.r.Fail("no-convergence", "rounds", "anti-entropy still changes state after %d rounds", rounds)
	}
	want := []string{w.treeId}
	for id := range w.created {
		want = append(want, id)
	}
	sort.Strings(want)
	ref := w.reps[0]
	for _, rep := range w.active() {
		got := rep.storedIds()
		if strings.Join(got, ",") != strings.Join(want, ",") {
			w.r.Fail("no-convergence", "stored-set", "%s stores %d changes after the fair phase, expected the union of all %d created changes\n missing: %s\n extra: %s",
				rep.name, len(got), len(want), shorts(diff(want, got)), shorts(diff(got, want)))
		}
		if strings.Join(rep.heads(), ",") != strings.Join(ref.heads(), ",") {
			w.r.Fail("no-convergence", "heads", "%s heads %s differ from %s heads %s after the fair phase", rep.name, rep.headsKey(), ref.name, ref.headsKey())
		}
	}
}

func sortStrings(s []string) { sort.Strings(s) }

func diff(a, b []string) []string {
	m := map[string]bool{}
	for _, x := range b {
		m[x] = true
	}
	var out []string
	for _, x := range a {
		if !m[x] {
			out = append(out, x)
		}
	}
	return out
}

// divergenceReport explains which changes the replicas disagree on (diagnostics for liveness failures).
func (w *world) divergenceReport() string {
	var sb strings.Builder
	union := map[string]bool{}
	sets := map[int]map[string]bool{}
	for _, rep := range w.active() {
		if !rep.up || rep.tree == nil {
			continue
		}
		rep.st = nil
		sets[rep.idx] = map[string]bool{}
		for _, id := range rep.storedIds() {
			sets[rep.idx][id] = true
			union[id] = true
		}
	}
	var ids []string
	for id := range union {
		ids = append(ids, id)
	}
	sort.Strings(ids)
	for _, id := range ids {
		var missing []string
		for _, rep := range w.active() {
			if s, ok := sets[rep.idx]; ok && !s[id] {
				missing = append(missing, rep.name)
			}
		}
		if len(missing) > 0 {
			fmt.Fprintf(&sb, "\n change %s is missing on %s", short(id), strings.Join(missing, ","))
			if raw, ok := w.created[id]; ok {
				if d, err := decodeChange(&treechangeproto.RawTreeChangeWithId{RawChange: raw, Id: id}); err == nil && w.script != nil {
					name := "?"
					if a := w.script.accountOf(d.tc.Identity); a != nil {
						name = a.Name
					}
					fmt.Fprintf(&sb, " (author %s cites #%s parents %s snapshot %s isSnapshot=%v)", name, w.recName(d.tc.AclHeadId), shorts(d.tc.TreeHeadIds), short(d.tc.SnapshotBaseId), d.tc.IsSnapshot)
				}
			}
		}
	}
	for _, rep := range w.active() {
		fmt.Fprintf(&sb, "\n %s heads %s", rep.name, rep.headsKey())
	}
	return sb.String()
}
