package treesim

import (
	"fmt"
	"os"
	"path/filepath"
	"sort"
	"strings"

	"github.com/anyproto/any-sync/commonspace/object/tree/synctree"
	"github.com/anyproto/any-sync/commonspace/object/tree/synctree/response"
	"github.com/anyproto/any-sync/commonspace/object/tree/treechangeproto"
	"github.com/anyproto/any-sync/commonspace/spacesyncproto"
	"github.com/anyproto/any-sync/net/peer"

	"verif/sim/core"
)

// C09 — full-sync responses are complete, causally ordered and size-bounded.
// Inputs are simulator states: at sampled points of a C01-style run an ordered pair (responder R,
// requester Q) is probed with a batch limit from the swarm; the batches are checked and then applied
// through the wire to a clone of Q (copy of its database directory, reopened).

func init() { props["C09"] = func(r *core.Run) { runTree(r, treeOpts{fullSync: true}) } }

type reqState struct {
	heads  []string
	path   []string
	stored map[string]bool
}

func (rep *replica) requestState() reqState {
	rep.tree.Lock()
	defer rep.tree.Unlock()
	path, err := rep.tree.SnapshotPath()
	if err != nil {
		rep.w.r.Fail("snapshot-path-failed", "", "%s: %v", rep.name, err)
	}
	st := reqState{heads: append([]string{}, rep.tree.Heads()...), path: append([]string{}, path...), stored: map[string]bool{}}
	for _, id := range rep.storedIds() {
		st.stored[id] = true
	}
	return st
}

var batchLimits = []int{1, 64, 200, 400, 900, 2000, 5000, 1 << 20}

func (w *world) fullSyncProbe() {
	s := w.r.Src
	var ups []*replica
	for _, rep := range w.active() {
		if rep.up && rep.tree != nil {
			ups = append(ups, rep)
		}
	}
	if len(ups) < 2 {
		return
	}
	ri := s.Choose("probe-r", len(ups))
	qi := s.Choose("probe-q", len(ups)-1)
	if qi >= ri {
		qi++
	}
	R, Q := ups[ri], ups[qi]
	limit := batchLimits[s.Choose("probe-limit", len(batchLimits))]
	variant := s.Weighted("probe-variant", []int{6, 2})
	qs := Q.requestState()
	reqHeads, reqPath := qs.heads, qs.path
	if variant == 1 { // empty-heads request: the whole tree
		reqHeads, reqPath = nil, nil
	}
	_, rById := R.stored()
	rStored := map[string]bool{}
	for id := range rById {
		rStored[id] = true
	}
	// responder side, exactly what HandleStreamRequest does with the production limit
	R.tree.Lock()
	producer, err := response.NewResponseProducer(w.space.Id, R.tree, reqHeads, reqPath)
	R.tree.Unlock()
	if err != nil {
		w.r.Fail("producer-failed", "", "%s could not build a response producer for the honest request of %s (heads %s path %s): %v", R.name, Q.name, shorts(reqHeads), shorts(reqPath), err)
	}
	// the tree lock is released before the batches are produced: deliveries to the responder and its own edits
	// land between the load of the iterator and the batches, and between batches. The response still has to
	// carry everything the responder held when it handled the request.
	interleave := func() {
		if !s.Flip("probe-interleave", 0.25) {
			return
		}
		var cand []int
		for i, m := range w.msgs {
			if m.dst == R.idx && m.kind == kHeadUpdate {
				cand = append(cand, i)
			}
		}
		if len(cand) > 0 && s.Flip("probe-interleave-deliver", 0.7) {
			w.r.Fault("delivery-during-stream")
			w.deliver(w.removeMsg(cand[s.Choose("probe-interleave-msg", len(cand))]))
			return
		}
		w.r.Fault("edit-during-stream")
		w.probeAdds++
		w.localAdd(R, false, 500000+w.probeAdds)
	}
	interleave()
	var batches []*response.Response
	for n := 0; ; n++ {
		if n > 0 {
			interleave()
		}
		b, err := producer.NewResponse(limit)
		if err != nil {
			w.r.Fail("producer-failed", "batch", "%s: NewResponse(%d): %v", R.name, limit, err)
		}
		if len(b.Changes) == 0 {
			break
		}
		batches = append(batches, b)
		if n > 10000 {
			w.r.Fail("producer-endless", "", "%s: more than 10000 batches", R.name)
		}
	}
	have := qs.stored
	if variant == 1 {
		have = map[string]bool{w.treeId: true}
	}
	sent := map[string]bool{}
	total := 0
	for bi, b := range batches {
		size := 0
		for _, c := range b.Changes {
			size += len(c.RawChange)
			if sent[c.Id] {
				w.r.Fail("response-duplicate", "", "%s -> %s: change %s sent twice", R.name, Q.name, short(c.Id))
			}
			sc, ok := rById[c.Id]
			if !ok {
				w.r.Fail("advertised-not-held", "probe", "%s sends %s which it does not store", R.name, short(c.Id))
			}
			if string(sc.raw) != string(c.RawChange) {
				w.r.Fail("response-bytes-differ", "", "%s sends bytes for %s that differ from its stored bytes", R.name, short(c.Id))
			}
			for _, p := range sc.prev {
				if !have[p] && !sent[p] {
					w.r.Fail("response-not-causal", "", "%s -> %s (limit %d, batch %d): change %s is sent before its parent %s which the requester lacks", R.name, Q.name, limit, bi, short(c.Id), short(p))
				}
			}
			sent[c.Id] = true
			total++
		}
		if size > limit && len(b.Changes) > 1 {
			w.r.Fail("batch-over-limit", "", "%s -> %s: batch %d holds %d changes with %d bytes, limit %d", R.name, Q.name, bi, len(b.Changes), size, limit)
		}
		if len(b.Heads) == 0 {
			w.r.Fail("response-heads-inconsistent", "empty", "%s -> %s: batch %d announces no heads", R.name, Q.name, bi)
		}
		for _, h := range b.Heads {
			if !sent[h] && !have[h] {
				w.r.Fail("response-heads-inconsistent", "unknown", "%s -> %s: batch %d announces head %s which was neither sent nor is held by the requester", R.name, Q.name, bi, short(h))
			}
		}
		if len(batches) > 1 {
			w.r.Probe("multi-batch-response")
		}
	}
	var missing []string
	for id := range rStored {
		if !have[id] && !sent[id] {
			missing = append(missing, id)
		}
	}
	if len(missing) > 0 {
		sort.Strings(missing)
		w.r.Fail("response-incomplete", fmt.Sprintf("variant%d", variant), "%s -> %s (heads %s path %s limit %d): the responder stores %s which the requester lacks and which no batch contains", R.name, Q.name,
			shorts(reqHeads), shorts(reqPath), limit, shorts(missing))
	}
	// apply through the wire to a clone of Q
	clone := w.cloneReplica(Q)
	defer clone.discard()
	for bi, b := range batches {
		pm, err := b.ProtoMessage()
		must(err)
		wire, err := pm.(*spacesyncproto.ObjectSyncMessage).MarshalVT()
		must(err)
		msg := &spacesyncproto.ObjectSyncMessage{}
		must(msg.UnmarshalVT(wire))
		resp := &response.Response{}
		must(resp.SetProtoMessage(msg))
		if err := clone.tree.HandleResponse(peer.CtxWithPeerId(ctxb, R.name), R.name, w.treeId, resp); err != nil {
			w.r.Fail("response-not-applicable", "error", "%s -> clone of %s: applying batch %d/%d (limit %d) failed: %v", R.name, Q.name, bi+1, len(batches), limit, err)
		}
		clone.st = nil
		cs := map[string]bool{}
		for _, id := range clone.storedIds() {
			cs[id] = true
		}
		for _, c := range b.Changes {
			if !cs[c.Id] {
				w.r.Fail("response-not-applicable", "unattached", "%s -> clone of %s: change %s of batch %d/%d (limit %d) was not attached", R.name, Q.name, short(c.Id), bi+1, len(batches), limit)
			}
		}
		w.checkReplica(clone, "probe clone")
	}
	want := map[string]bool{}
	for id := range rStored {
		want[id] = true
	}
	for id := range qs.stored {
		want[id] = true
	}
	got := clone.storedIds()
	if len(got) != len(want) {
		w.r.Fail("response-not-applicable", "union", "clone of %s after applying the response of %s stores %d changes, union is %d", Q.name, R.name, len(got), len(want))
	}
	relation := "diverged"
	switch {
	case len(missing) == 0 && total == 0:
		relation = "nothing-to-send"
	case subset(qs.stored, rStored):
		relation = "requester-behind"
	}
	w.r.Probe("probe-" + relation)
	if variant == 1 {
		w.r.Probe("probe-empty-heads")
	}
	w.r.Count("evals")
	w.r.Event("probe", "%s answers %s: variant=%d limit=%d batches=%d changes=%d (%s)", R.name, Q.name, variant, limit, len(batches), total, relation)
}

func subset(a, b map[string]bool) bool {
	for k := range a {
		if !b[k] {
			return false
		}
	}
	return true
}

// cloneReplica copies Q's database directory (quiescent: no call in progress) and reopens it as a
// scratch replica that sends nothing.
func (w *world) cloneReplica(q *replica) *replica {
	w.cloneSeq++
	c := &replica{w: w, idx: q.idx, name: q.name, acc: q.acc, passive: true}
	c.dir = filepath.Join(w.dir, fmt.Sprintf("clone-%d", w.cloneSeq))
	must(os.MkdirAll(c.dir, 0o755))
	ents, err := os.ReadDir(q.dir)
	must(err)
	for _, e := range ents {
		if e.IsDir() || strings.HasSuffix(e.Name(), "-shm") {
			continue
		}
		b, err := os.ReadFile(filepath.Join(q.dir, e.Name()))
		must(err)
		must(os.WriteFile(filepath.Join(c.dir, e.Name()), b, 0o644))
	}
	c.client = &simClient{RequestFactory: synctree.NewRequestFactory(w.space.Id), rep: c, muted: true}
	c.openStorage(false)
	t, err := synctree.BuildSyncTreeOrGetRemote(ctxb, w.treeId, c.deps())
	if err != nil {
		w.r.Fail("reopen-failed", "clone", "clone of %s: %v", q.name, err)
	}
	c.tree = t
	return c
}

func (c *replica) discard() {
	c.shutdown()
	_ = os.RemoveAll(c.dir)
}

var _ = treechangeproto.ErrGetTree
var _ = core.Mix
