package treesim

import (
	"crypto/sha256"
	"encoding/base32"

	"github.com/ipfs/go-cid"
	"github.com/multiformats/go-multibase"

	"fmt"
	"sort"
	"strings"

	"github.com/anyproto/any-sync/commonspace/object/acl/list"
	"github.com/anyproto/any-sync/commonspace/object/tree/treechangeproto"
	"github.com/anyproto/any-sync/commonspace/spacesyncproto"
	"github.com/anyproto/any-sync/consensus/consensusproto"
	"github.com/anyproto/any-sync/util/cidutil"
	"github.com/anyproto/any-sync/util/crypto"

	"verif/sim/core"
	"verif/sim/simlib"
)

// C02 — only authentic, authorised changes are ever attached or persisted.
// A scripted ACL history (members promoted, demoted, removed, re-added) reaches the replicas record by
// record through the simulated network, so a replica can see a change before the record it cites.
// Faults: structure-aware corruption of changes in flight and a byzantine author who holds every
// account's key and builds well-formed, correctly signed changes it is not entitled to.
// Oracle: a reference predicate written from the property text (not the validator) decides for every
// (id, bytes) pair whether it may be part of a tree on a given replica; a rejected delivery must leave
// heads, iteration and storage untouched.

func init() { props["C02"] = runC02 }

const (
	pNone = iota
	pReader
	pWriter
)

type aclScript struct {
	ids   []string                          // ids[k] = id of record k (0 = ACL root)
	recs  []*consensusproto.RawRecordWithId // recs[k] for k >= 1
	index map[string]int                    // record id -> k
	perm  []map[string]int                  // perm[k][account name]
	accs  map[string]*simlib.Account        // by name
	byKey map[string]*simlib.Account        // by marshalled public key
	names []string
}

func (sc *aclScript) accountOf(identity []byte) *simlib.Account { return sc.byKey[string(identity)] }

// buildScript creates the ACL history through the real builder/list (byte-deterministic helpers of
// simlib) and, independently, the harness's own permission timeline.
func (w *world) buildScript(extra []*simlib.Account) *aclScript {
	s := w.r.Src
	sc := &aclScript{index: map[string]int{}, accs: map[string]*simlib.Account{}, byKey: map[string]*simlib.Account{}}
	all := append(append([]*simlib.Account{}, w.accs...), extra...)
	for _, a := range all {
		sc.accs[a.Name] = a
		b, err := a.Pub().Marshall()
		must(err)
		sc.byKey[string(b)] = a
		sc.names = append(sc.names, a.Name)
	}
	cur := map[string]int{w.accs[0].Name: pWriter} // the owner may write
	snap := func() {
		m := map[string]int{}
		for k, v := range cur {
			m[k] = v
		}
		sc.perm = append(sc.perm, m)
	}
	snap() // record 0: root
	// record 1: replica accounts become writers
	if len(w.accs) > 1 {
		w.space.Add(list.AclPermissionsWriter, w.accs[1:]...)
		for _, a := range w.accs[1:] {
			cur[a.Name] = pWriter
		}
		snap()
	}
	flex := append(append([]*simlib.Account{}, w.accs[1:]...), extra...)
	nops := s.Range("aclops", 2, 7)
	for i := 0; i < nops; i++ {
		a := flex[s.Choose("aclacc", len(flex))]
		switch cur[a.Name] {
		case pNone:
			if s.Flip("addreader", 0.3) {
				w.space.Add(list.AclPermissionsReader, a)
				cur[a.Name] = pReader
			} else {
				w.space.Add(list.AclPermissionsWriter, a)
				cur[a.Name] = pWriter
			}
		case pReader:
			if s.Flip("twice", 0.2) {
				// one record that touches the account twice: writer first, reader in the end
				w.space.ChangePermTwice(a, list.AclPermissionsWriter, list.AclPermissionsReader)
				w.r.Probe("acl-record-changes-account-twice")
			} else if s.Flip("remove", 0.4) {
				w.space.Remove(a)
				cur[a.Name] = pNone
			} else {
				w.space.ChangePerm(a, list.AclPermissionsWriter)
				cur[a.Name] = pWriter
			}
		case pWriter:
			if s.Flip("twice", 0.2) {
				w.space.ChangePermTwice(a, list.AclPermissionsWriter, list.AclPermissionsReader)
				cur[a.Name] = pReader
				w.r.Probe("acl-record-changes-account-twice")
			} else if s.Flip("remove", 0.4) {
				w.space.Remove(a)
				cur[a.Name] = pNone
			} else {
				w.space.ChangePerm(a, list.AclPermissionsReader)
				cur[a.Name] = pReader
			}
		}
		snap()
	}
	sc.ids = append(sc.ids, w.space.Payload.AclWithId.Id)
	sc.recs = append(sc.recs, nil)
	for _, rec := range w.space.Records {
		sc.ids = append(sc.ids, rec.Id)
		sc.recs = append(sc.recs, rec)
	}
	if len(sc.ids) != len(sc.perm) {
		panic("script/timeline length mismatch")
	}
	for k, id := range sc.ids {
		sc.index[id] = k
	}
	return sc
}

// decoded change
type dchange struct {
	id  string
	raw []byte
	rtc *treechangeproto.RawTreeChange
	tc  *treechangeproto.TreeChange
}

func decodeChange(raw *treechangeproto.RawTreeChangeWithId) (*dchange, error) {
	rtc := &treechangeproto.RawTreeChange{}
	if err := rtc.UnmarshalVT(raw.RawChange); err != nil {
		return nil, err
	}
	tc := &treechangeproto.TreeChange{}
	if err := tc.UnmarshalVT(rtc.Payload); err != nil {
		return nil, err
	}
	return &dchange{id: raw.Id, raw: raw.RawChange, rtc: rtc, tc: tc}, nil
}

// citedIndex returns the script index of the ACL record a stored change (or the root) cites.
func (w *world) citedIndex(id string) (int, bool) {
	if id == w.treeId {
		rtc := &treechangeproto.RawTreeChange{}
		must(rtc.UnmarshalVT(w.root.RawChange))
		rc := &treechangeproto.RootChange{}
		must(rc.UnmarshalVT(rtc.Payload))
		k, ok := w.script.index[rc.AclHeadId]
		return k, ok
	}
	raw, ok := w.created[id]
	if !ok {
		return 0, false
	}
	d, err := decodeChange(&treechangeproto.RawTreeChangeWithId{RawChange: raw, Id: id})
	if err != nil {
		return 0, false
	}
	k, ok := w.script.index[d.tc.AclHeadId]
	return k, ok
}

// admissible is the reference predicate: conjuncts 1-4 of the property ("in principle"); aclKnown
// (>= 0) adds conjunct 5: the cited record is among the first aclKnown+1 records the replica holds.
func (w *world) admissible(id string, raw []byte, aclKnown int) (bool, string) {
	if refCid(raw) != id {
		return false, "id is not the content hash of the bytes"
	}
	d, err := decodeChange(&treechangeproto.RawTreeChangeWithId{RawChange: raw, Id: id})
	if err != nil {
		return false, "undecodable"
	}
	pub, err := crypto.UnmarshalEd25519PublicKeyProto(d.tc.Identity)
	if err != nil {
		return false, "identity is not a key"
	}
	if ok, err := pub.Verify(d.rtc.Payload, d.rtc.Signature); err != nil || !ok {
		return false, "signature does not verify under the named identity"
	}
	k, ok := w.script.index[d.tc.AclHeadId]
	if !ok {
		return false, "cites an ACL record that does not exist"
	}
	acc := w.script.accountOf(d.tc.Identity)
	if acc == nil || w.script.perm[k][acc.Name] < pWriter {
		return false, fmt.Sprintf("author held no write permission at cited record #%d", k)
	}
	for _, p := range d.tc.TreeHeadIds {
		pk, ok := w.citedIndex(p)
		if !ok {
			return false, "parent " + short(p) + " is not an admissible change"
		}
		if pk > k {
			return false, fmt.Sprintf("cites record #%d, older than record #%d cited by parent %s", k, pk, short(p))
		}
	}
	if aclKnown >= 0 && k > aclKnown {
		return false, fmt.Sprintf("cites record #%d but the replica only holds records up to #%d", k, aclKnown)
	}
	return true, ""
}

// refCid: the one accepted spelling of the content id of some bytes, computed here from the digest (not by the
// code under test): CIDv1, dag-cbor codec, sha2-256, lower-case base32.
func refCid(raw []byte) string {
	sum := sha256.Sum256(raw)
	// multihash: code 0x12 (sha2-256), length 32; cid: version 1, codec 0x71 (dag-cbor)
	b := append([]byte{0x01, 0x71, 0x12, 0x20}, sum[:]...)
	return "b" + strings.ToLower(base32.StdEncoding.WithPadding(base32.NoPadding).EncodeToString(b))
}

// consider registers a byzantine (id, bytes) pair in the ground truth if it is admissible in principle.
func (w *world) consider(raw *treechangeproto.RawTreeChangeWithId) bool {
	if _, dup := w.created[raw.Id]; dup {
		return string(w.created[raw.Id]) == string(raw.RawChange)
	}
	ok, _ := w.admissible(raw.Id, raw.RawChange, -1)
	if ok {
		w.created[raw.Id] = append([]byte{}, raw.RawChange...)
		w.order = append(w.order, raw.Id)
		if w.byzIds == nil {
			w.byzIds = map[string]bool{}
		}
		w.byzIds[raw.Id] = true
		w.r.Probe("byz-admissible-built")
	} else {
		w.r.Probe("byz-inadmissible-built")
	}
	return ok
}

// authCheck: every change a replica stores or presents is admissible on that replica now.
func (w *world) authCheck(rep *replica, when string) {
	if !rep.up || rep.tree == nil {
		return
	}
	if rep.authSeen == nil {
		rep.authSeen = map[string]bool{}
	}
	res, byId := rep.stored()
	for _, c := range res {
		if c.id == w.treeId || rep.authSeen[c.id] {
			continue
		}
		ok, why := w.admissible(c.id, c.raw, rep.aclIdx)
		if !ok {
			w.r.Fail("inadmissible-change-stored", classify(why), "%s (%s): stored change %s must not be part of the tree: %s", rep.name, when, short(c.id), why)
		}
		rep.authSeen[c.id] = true
		if w.byzIds[c.id] {
			w.r.Probe("byz-admissible-accepted")
		}
		w.r.Count("evals")
	}
	for _, id := range rep.iterSeq() {
		if _, ok := byId[id]; !ok {
			w.r.Fail("inadmissible-change-attached", "", "%s (%s): the tree presents %s which is not stored", rep.name, when, short(id))
		}
	}
}

func classify(why string) string {
	switch {
	case strings.HasPrefix(why, "id is not"):
		return "cid"
	case strings.HasPrefix(why, "signature"):
		return "signature"
	case strings.HasPrefix(why, "author held"):
		return "permission"
	case strings.HasPrefix(why, "cites an ACL record that does not"), strings.Contains(why, "only holds records"):
		return "unknown-record"
	case strings.Contains(why, "older than"):
		return "acl-order"
	}
	return "other"
}

type applySnap struct {
	heads  string
	seq    string
	stored string
}

func (w *world) snapState(rep *replica) applySnap {
	rep.st = nil
	return applySnap{heads: strings.Join(rep.heads(), ","), seq: strings.Join(rep.iterSeq(), ","), stored: strings.Join(rep.storedIds(), ",")}
}

// rollbackCheck: a delivery the handler rejected with an error changed nothing.
func (w *world) rollbackCheck(rep *replica, before applySnap, err error, what string) {
	if err == nil {
		return
	}
	after := w.snapState(rep)
	w.r.Probe("delivery-rejected")
	switch {
	case before.heads != after.heads:
		// One specific cause is a recorded finding: an earlier accepted change (authentic, authorised) merged a
		// branch that lies outside the subtree of the snapshot it names as its base; the stored common snapshot
		// then does not dominate that head, and the rebuild from storage that follows a rejected batch drops it.
		sig := "heads"
		if w.lostHeadsOutsideCommonSnapshot(rep, before.heads, after.heads) {
			sig = "heads:head-outside-common-snapshot"
		}
		w.r.Fail("rejected-batch-changed-state", sig, "%s: %s was rejected (%v) but heads changed from [%s] to [%s] (stored changes before: %d, after: %d)", rep.name, what, err, shortList(before.heads), shortList(after.heads), len(strings.Split(before.stored, ",")), len(strings.Split(after.stored, ",")))
	case before.seq != after.seq:
		w.r.Fail("rejected-batch-changed-state", "iteration", "%s: %s was rejected (%v) but the presented sequence changed", rep.name, what, err)
	case before.stored != after.stored:
		w.r.Fail("rejected-batch-changed-state", "storage", "%s: %s was rejected (%v) but the stored set changed", rep.name, what, err)
	}
}

// ---- byzantine construction --------------------------------------------------------------------

func (w *world) signChange(tc *treechangeproto.TreeChange, signer *simlib.Account, keepSig []byte) *treechangeproto.RawTreeChangeWithId {
	payload, err := tc.MarshalVT()
	must(err)
	sig := keepSig
	if signer != nil {
		sig, err = signer.Keys.SignKey.Sign(payload)
		must(err)
	}
	rawb, err := (&treechangeproto.RawTreeChange{Payload: payload, Signature: sig}).MarshalVT()
	must(err)
	id, err := cidutil.NewCidFromBytes(rawb)
	must(err)
	return &treechangeproto.RawTreeChangeWithId{RawChange: rawb, Id: id}
}

func (w *world) anyAccount(label string) *simlib.Account {
	n := w.script.names[w.r.Src.Choose(label, len(w.script.names))]
	return w.script.accs[n]
}

func (w *world) anyRecordId(label string) string {
	s := w.r.Src
	if s.Flip(label+"-unknown", 0.08) {
		id, _ := cidutil.NewCidFromBytes([]byte(fmt.Sprintf("no-such-record-%d", s.Choose("n", 1000))))
		return id
	}
	return w.script.ids[s.Choose(label, len(w.script.ids))]
}

func (w *world) anyStoredId(label string) string {
	ids := append([]string{w.treeId}, w.order...)
	return ids[w.r.Src.Choose(label, len(ids))]
}

// mutateChange applies one structure-aware mutation to a change taken from a real message.
func (w *world) mutateChange(orig *treechangeproto.RawTreeChangeWithId) (*treechangeproto.RawTreeChangeWithId, string) {
	s := w.r.Src
	d, err := decodeChange(orig)
	if err != nil {
		return orig, "undecodable"
	}
	author := w.script.accountOf(d.tc.Identity)
	flip := func(b []byte, label string) []byte {
		c := append([]byte{}, b...)
		if len(c) > 0 {
			c[s.Choose(label, len(c))] ^= byte(1 << s.Choose("bit", 8))
		}
		return c
	}
	rewrap := func(payload, sig []byte, newId bool) *treechangeproto.RawTreeChangeWithId {
		rawb, err := (&treechangeproto.RawTreeChange{Payload: payload, Signature: sig}).MarshalVT()
		must(err)
		id := orig.Id
		if newId {
			id, err = cidutil.NewCidFromBytes(rawb)
			must(err)
		}
		return &treechangeproto.RawTreeChangeWithId{RawChange: rawb, Id: id}
	}
	switch k := s.Choose("mutation", 12); k {
	case 11:
		// the same bytes under another spelling of the same digest: another multibase, another codec
		c, err := cid.Decode(orig.Id)
		if err != nil {
			return orig, "undecodable id"
		}
		id := strings.ToUpper(orig.Id)
		switch s.Choose("alias-form", 3) {
		case 1:
			id = cid.NewCidV1(cid.Raw, c.Hash()).String()
		case 2:
			id, err = c.StringOfBase(multibase.Base58BTC)
			must(err)
		}
		return &treechangeproto.RawTreeChangeWithId{RawChange: orig.RawChange, Id: id}, "bytes kept, id re-spelled (other multibase or codec, same digest)"
	case 0:
		return rewrap(flip(d.rtc.Payload, "pos"), d.rtc.Signature, false), "payload byte flipped, id kept"
	case 1:
		return rewrap(d.rtc.Payload, flip(d.rtc.Signature, "pos"), false), "signature byte flipped, id kept"
	case 2:
		// flip inside the content so that the payload stays decodable
		tc := cloneTC(d.tc)
		tc.ChangesData = flip(tc.ChangesData, "pos")
		p, err := tc.MarshalVT()
		must(err)
		return rewrap(p, d.rtc.Signature, true), "content byte flipped, id recomputed"
	case 3:
		return &treechangeproto.RawTreeChangeWithId{RawChange: orig.RawChange, Id: w.anyStoredId("otherid")}, "bytes kept, id replaced by another change's id"
	case 4:
		tc := cloneTC(d.tc)
		other := w.anyAccount("newauthor")
		tc.Identity, _ = other.Pub().Marshall()
		return w.signChange(tc, other, nil), "author replaced by " + other.Name + " and re-signed with that key"
	case 5:
		tc := cloneTC(d.tc)
		other := w.anyAccount("newauthor")
		tc.Identity, _ = other.Pub().Marshall()
		return w.signChange(tc, nil, d.rtc.Signature), "claimed author replaced by " + other.Name + ", signature kept"
	case 6:
		tc := cloneTC(d.tc)
		tc.AclHeadId = w.anyRecordId("newacl")
		if author == nil {
			return orig, "unknown author"
		}
		return w.signChange(tc, author, nil), "cited ACL record re-pointed, re-signed by the author"
	case 7:
		tc := cloneTC(d.tc)
		tc.AclHeadId = w.anyRecordId("newacl")
		return w.signChange(tc, nil, d.rtc.Signature), "cited ACL record re-pointed, signature kept"
	case 8:
		tc := cloneTC(d.tc)
		if len(tc.TreeHeadIds) > 1 && s.Flip("dropparent", 0.5) {
			tc.TreeHeadIds = tc.TreeHeadIds[1:]
		} else {
			tc.TreeHeadIds = append(append([]string{}, tc.TreeHeadIds...), w.anyStoredId("newparent"))
			sort.Strings(tc.TreeHeadIds)
		}
		if author == nil {
			return orig, "unknown author"
		}
		return w.signChange(tc, author, nil), "parents edited, re-signed by the author"
	case 9:
		return w.signChange(cloneTC(d.tc), nil, nil), "signature stripped"
	default:
		tc := cloneTC(d.tc)
		tc.Timestamp++
		return w.signChange(tc, nil, d.rtc.Signature), "timestamp edited, signature kept"
	}
}

// corruptInFlight mutates one change inside a head update in flight.
func (w *world) corruptInFlight() bool {
	s := w.r.Src
	var cands []*message
	for _, m := range w.msgs {
		if m.kind == kHeadUpdate && m.hasChanges() {
			cands = append(cands, m)
		}
	}
	if len(cands) == 0 {
		return false
	}
	m := cands[s.Choose("corrupt-msg", len(cands))]
	osm := &spacesyncproto.ObjectSyncMessage{}
	must(osm.UnmarshalVT(m.bytes))
	tm := &treechangeproto.TreeSyncMessage{}
	must(tm.UnmarshalVT(osm.Payload))
	hu := tm.GetContent().GetHeadUpdate()
	// the order of concurrent changes inside one head update is not fixed by the code under test (three sibling
	// heads were seen in three orders for one seed): the change is picked by rank of its id, not by position
	rank := make([]int, len(hu.Changes))
	for k := range rank {
		rank[k] = k
	}
	sort.Slice(rank, func(a, b int) bool { return hu.Changes[rank[a]].Id < hu.Changes[rank[b]].Id })
	i := rank[s.Choose("corrupt-change", len(hu.Changes))]
	old := hu.Changes[i]
	nw, what := w.mutateChange(old)
	w.consider(nw)
	hu.Changes[i] = nw
	if nw.Id != old.Id {
		for j, h := range hu.Heads {
			if h == old.Id {
				hu.Heads[j] = nw.Id
			}
		}
	}
	var err error
	osm.Payload, err = tm.MarshalVT()
	must(err)
	m.bytes, err = osm.MarshalVT()
	must(err)
	m.corrupt = true
	m.note = "[corrupted: " + what + "]"
	w.r.Fault("corrupt")
	w.r.Event("corrupt", "#%d %s->%s change %s: %s", m.seq, peerName(m.src), peerName(m.dst), short(old.Id), what)
	return true
}

func (m *message) hasChanges() bool {
	osm := &spacesyncproto.ObjectSyncMessage{}
	if osm.UnmarshalVT(m.bytes) != nil {
		return false
	}
	tm := &treechangeproto.TreeSyncMessage{}
	if tm.UnmarshalVT(osm.Payload) != nil {
		return false
	}
	return len(tm.GetContent().GetHeadUpdate().GetChanges()) > 0
}

// injectCrafted: the byzantine author builds a well-formed change on a donor replica's state, with any
// account key and any cited record, and sends it to a victim as a head update.
func (w *world) injectCrafted() bool {
	s := w.r.Src
	var ups []*replica
	for _, rep := range w.active() {
		if rep.up && rep.tree != nil {
			ups = append(ups, rep)
		}
	}
	if len(ups) == 0 {
		return false
	}
	donor := ups[s.Choose("donor", len(ups))]
	victim := ups[s.Choose("victim", len(ups))]
	author := w.anyAccount("byz-author")
	donor.tree.Lock()
	heads := append([]string{}, donor.tree.Heads()...)
	rootId := donor.tree.Root().Id
	path, err := donor.tree.SnapshotPath()
	donor.tree.Unlock()
	must(err)
	ident, _ := author.Pub().Marshall()
	w.byzSeq++
	tc := &treechangeproto.TreeChange{
		TreeHeadIds: heads, AclHeadId: w.anyRecordId("byz-acl"), SnapshotBaseId: rootId,
		ChangesData: []byte(fmt.Sprintf("byz-content-%d", w.byzSeq)), Timestamp: int64(946684800 + 100000 + w.byzSeq), Identity: ident,
	}
	// mostly cite the record the honest builder would cite on the donor (so that entitlement alone decides)
	if s.Flip("byz-honest-acl", 0.5) {
		tc.AclHeadId = w.script.ids[donor.aclIdx]
	}
	raw := w.signChange(tc, author, nil)
	adm := w.consider(raw)
	tm := treechangeproto.WrapHeadUpdate(&treechangeproto.TreeHeadUpdate{Heads: []string{raw.Id}, Changes: []*treechangeproto.RawTreeChangeWithId{raw}, SnapshotPath: path}, w.root)
	payload, err := tm.MarshalVT()
	must(err)
	b, err := (&spacesyncproto.ObjectSyncMessage{SpaceId: w.space.Id, Payload: payload, ObjectId: w.treeId, ObjectType: spacesyncproto.ObjectType_Tree}).MarshalVT()
	must(err)
	src := donor.idx
	if src == victim.idx {
		src = (victim.idx + 1) % len(w.active())
	}
	w.enqueue(&message{kind: kHeadUpdate, src: src, dst: victim.idx, bytes: b, corrupt: true,
		note: fmt.Sprintf("[crafted by %s citing #%s admissible-in-principle=%v]", author.Name, w.recName(tc.AclHeadId), adm)})
	w.r.Fault("byzantine-author")
	w.r.Event("inject", "crafted change %s by %s on %s's heads citing #%s -> %s (admissible in principle: %v)", short(raw.Id), author.Name, donor.name, w.recName(tc.AclHeadId), victim.name, adm)
	return true
}

func (w *world) recName(id string) string {
	if k, ok := w.script.index[id]; ok {
		return fmt.Sprint(k)
	}
	return "unknown"
}

// aclAdvance delivers the next ACL record to a replica.
func (w *world) aclAdvance() bool {
	s := w.r.Src
	var cands []*replica
	for _, rep := range w.active() {
		if rep.up && rep.aclIdx < len(w.script.ids)-1 {
			cands = append(cands, rep)
		}
	}
	if len(cands) == 0 {
		return false
	}
	rep := cands[s.Choose("acl-rep", len(cands))]
	w.aclDeliver(rep)
	return true
}

func (w *world) aclDeliver(rep *replica) {
	rec := w.script.recs[rep.aclIdx+1]
	rep.acl.Lock()
	err := rep.acl.AddRawRecord(rec)
	rep.acl.Unlock()
	if err != nil {
		w.r.Fail("acl-record-refused", "", "%s refused authentic ACL record #%d: %v", rep.name, rep.aclIdx+1, err)
	}
	rep.aclIdx++
	w.r.Event("acl-record", "%s now holds ACL records up to #%d", rep.name, rep.aclIdx)
}

func runC02(r *core.Run) {
	c := genTreeCfg(r)
	c.encrypted = false
	s := r.Src
	w := newWorld(r, c.nreps, 0)
	w.opts = treeOpts{auth: true}
	defer w.cleanup()
	extra := []*simlib.Account{simlib.NewAccount("accX"), simlib.NewAccount("accY")}
	w.script = w.buildScript(extra)
	r.SetCfg("acl_records", len(w.script.ids))
	for i := 0; i < c.nreps; i++ {
		rep := w.addReplica(w.accs[i])
		if len(w.script.ids) > 1 {
			must(rep.acl.AddRawRecord(w.script.recs[1]))
			rep.aclIdx = 1
		}
	}
	w.createTree(false)
	wByz := 3
	if c.faultFree {
		wByz = 0
	}
	adds := 0
	for n := 0; n < c.maxSteps; n++ {
		switch s.Weighted("c02-action", []int{12, 3, wByz, wByz}) {
		case 0:
			if !w.step(c, &adds) {
				n = c.maxSteps
			}
		case 1:
			if !w.aclAdvance() {
				w.step(c, &adds)
			}
		case 2:
			if !w.corruptInFlight() {
				w.step(c, &adds)
			}
		case 3:
			w.injectCrafted()
		}
	}
	// late ACL arrival: everything still in flight may now be accepted - or must still be refused
	w.r.Event("heal", "remaining ACL records delivered; %d messages in flight", len(w.msgs))
	for _, rep := range w.active() {
		if !rep.up || rep.tree == nil {
			rep.restart()
		}
		for rep.aclIdx < len(w.script.ids)-1 {
			w.aclDeliver(rep)
		}
	}
	w.drain(5000)
	for _, rep := range w.active() {
		if err := rep.tree.SyncWithPeer(ctxb, stubPeer{id: w.reps[(rep.idx+1)%len(w.active())].name}); err != nil {
			w.r.Fail("sync-with-peer-error", "", "%v", err)
		}
	}
	w.drain(5000)
	for _, rep := range w.active() {
		w.checkReplica(rep, "end")
		w.authCheck(rep, "end")
	}
	nf := 0
	for _, v := range r.Faults {
		nf += v
	}
	r.Nontriv = len(w.created) >= 2 && (nf > 0 || c.faultFree)
}

func cloneTC(tc *treechangeproto.TreeChange) *treechangeproto.TreeChange {
	b, err := tc.MarshalVT()
	must(err)
	c := &treechangeproto.TreeChange{}
	must(c.UnmarshalVT(b))
	return c
}

func shortList(csv string) string {
	var l []string
	for _, id := range strings.Split(csv, ",") {
		l = append(l, short(id))
	}
	return strings.Join(l, ",")
}

// lostHeadsOutsideCommonSnapshot: every head that disappeared has an ancestor path to the tree's root that
// does not pass through the stored common snapshot (and nothing else changed in the head set).
func (w *world) lostHeadsOutsideCommonSnapshot(rep *replica, beforeCsv, afterCsv string) bool {
	after := map[string]bool{}
	for _, h := range strings.Split(afterCsv, ",") {
		after[h] = true
	}
	before := map[string]bool{}
	var lost []string
	for _, h := range strings.Split(beforeCsv, ",") {
		before[h] = true
		if !after[h] {
			lost = append(lost, h)
		}
	}
	for h := range after {
		if !before[h] {
			return false // a head appeared: a different failure
		}
	}
	e, err := rep.ss.HeadStorage().GetEntry(ctxb, w.treeId)
	if err != nil || len(lost) == 0 {
		return false
	}
	_, byId := rep.stored()
	var escapes func(id string, seen map[string]bool) bool
	escapes = func(id string, seen map[string]bool) bool {
		if id == e.CommonSnapshot || seen[id] {
			return false
		}
		seen[id] = true
		c, ok := byId[id]
		if !ok {
			return false
		}
		if len(c.prev) == 0 {
			return true // reached the root without meeting the common snapshot
		}
		for _, p := range c.prev {
			if escapes(p, seen) {
				return true
			}
		}
		return false
	}
	for _, h := range lost {
		if !escapes(h, map[string]bool{}) {
			return false
		}
	}
	return true
}
