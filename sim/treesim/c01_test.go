package treesim

import (
	"fmt"

	"github.com/anyproto/any-sync/commonspace/object/acl/list"

	"verif/sim/core"
)

func init() { props["C01"] = runC01 }

type treeCfg struct {
	nreps     int
	maxAdds   int
	maxSteps  int
	pSnapshot int // per mille
	wDrop     int
	wDup      int
	wCrash    int
	wBreak    int
	encrypted bool
	faultFree bool
	passive   int // passive receivers (C06 redelivery leg)
}

func genTreeCfg(r *core.Run) treeCfg {
	s := r.Src
	c := treeCfg{}
	c.nreps = 2 + s.Weighted("nreps", []int{5, 3, 2})
	c.maxAdds = s.Range("maxadds", 3, 40)
	c.maxSteps = s.Range("maxsteps", 30, 220)
	c.pSnapshot = []int{0, 50, 150, 350}[s.Choose("psnap", 4)]
	c.faultFree = s.Flip("faultfree", 0.1)
	if !c.faultFree {
		c.wDrop = []int{0, 2, 6}[s.Choose("wdrop", 3)]
		c.wDup = []int{0, 2, 5}[s.Choose("wdup", 3)]
		c.wCrash = []int{0, 1, 2}[s.Choose("wcrash", 3)]
		c.wBreak = []int{0, 1, 3}[s.Choose("wbreak", 3)]
	}
	c.encrypted = s.Flip("encrypted", 0.3)
	r.SetCfg("replicas", c.nreps)
	r.SetCfg("max_adds", c.maxAdds)
	r.SetCfg("snapshot_permille", c.pSnapshot)
	r.SetCfg("weights", fmt.Sprintf("drop=%d dup=%d crash=%d break=%d", c.wDrop, c.wDup, c.wCrash, c.wBreak))
	r.SetCfg("encrypted", c.encrypted)
	return c
}

// setupWorld: owner + one writer account per extra replica, all ACL records applied everywhere.
func setupWorld(r *core.Run, c treeCfg, o treeOpts) *world {
	w := newWorld(r, c.nreps, 0)
	w.opts = o
	if len(w.accs) > 1 {
		w.space.Add(list.AclPermissionsWriter, w.accs[1:]...)
	}
	for i := 0; i < c.nreps; i++ {
		rep := w.addReplica(w.accs[i])
		for _, rec := range w.space.Records {
			must(rep.acl.AddRawRecord(rec))
		}
	}
	for i := 0; i < c.passive; i++ {
		acc := w.accs[0]
		rep := w.addReplica(acc)
		rep.passive = true
		for _, rec := range w.space.Records {
			must(rep.acl.AddRawRecord(rec))
		}
	}
	w.createTree(c.encrypted)
	return w
}

// step performs one scheduler-chosen action; returns false when nothing is enabled.
func (w *world) step(c treeCfg, adds *int) bool {
	s := w.r.Src
	w.pruneStreams()
	var ups []*replica
	for _, rep := range w.reps {
		if rep.up && rep.tree != nil && !rep.passive {
			ups = append(ups, rep)
		}
	}
	wAdd := 0
	if *adds < c.maxAdds && len(ups) > 0 {
		wAdd = 6
	}
	nm, ns := len(w.msgs), len(w.streams)
	weights := []int{
		wAdd,                       // 0 local add
		10 * minInt(nm, 1),         // 1 deliver a message (any one: reordering)
		c.wDrop * minInt(nm, 1),    // 2 drop a message
		c.wDup * minInt(nm, 1),     // 3 duplicate a message
		8 * minInt(ns, 1),          // 4 deliver next batch of a stream
		c.wBreak * minInt(ns, 1),   // 5 break a stream
		c.wCrash * crashAllowed(w), // 6 crash / restart a replica
	}
	a := s.Weighted("action", weights)
	switch a {
	case -1:
		return false
	case 0:
		rep := ups[s.Choose("addrep", len(ups))]
		snap := s.Choose("snap", 1000) < c.pSnapshot
		*adds++
		w.localAdd(rep, snap, *adds)
		w.checkReplica(rep, "after add")
	case 1:
		i := s.Choose("msg", nm)
		if i > 0 {
			w.r.Fault("reorder")
		}
		m := w.removeMsg(i)
		w.deliver(m)
		w.checkReplica(w.reps[m.dst], "after delivery")
	case 2:
		m := w.removeMsg(s.Choose("msg", nm))
		w.r.Fault("drop")
		w.r.Event("drop", "#%d %s->%s", m.seq, peerName(m.src), peerName(m.dst))
	case 3:
		m := w.msgs[s.Choose("msg", nm)]
		cp := *m
		w.seq++
		cp.seq = w.seq
		w.msgs = append(w.msgs, &cp)
		w.r.Fault("duplicate")
		w.r.Event("duplicate", "#%d as #%d", m.seq, cp.seq)
	case 4:
		st := w.streams[s.Choose("stream", ns)]
		w.deliverBatch(st)
		w.checkReplica(w.reps[st.dst], "after batch")
	case 5:
		st := w.streams[s.Choose("stream", ns)]
		w.r.Fault("stream-break")
		w.r.Event("stream-break", "stream#%d after %d/%d batches", st.seq, st.next, len(st.batches))
		st.next = len(st.batches)
	case 6:
		act := w.active()
		rep := act[s.Choose("crashrep", len(act))]
		if rep.up {
			rep.shutdown()
			w.r.Fault("crash")
			w.r.Event("crash", "%s", rep.name)
		} else {
			rep.restart()
			w.r.Fault("restart")
			w.r.Event("restart", "%s heads %s", rep.name, rep.headsKey())
			w.checkReplica(rep, "after restart")
		}
	}
	return true
}

// crashAllowed bounds crash/restart cycles per run (each reopens a database; most of a run should
// make progress between faults).
func crashAllowed(w *world) int {
	if w.r.Faults["crash"] >= 3 {
		for _, rep := range w.active() {
			if !rep.up {
				return 1 // restarts of downed replicas stay enabled
			}
		}
		return 0
	}
	return 1
}

func minInt(a, b int) int {
	if a < b {
		return a
	}
	return b
}

func runC01(r *core.Run) { runTree(r, treeOpts{}) }

// treeOpts selects the extra legs layered on the C01 run by the other tree properties.
type treeOpts struct {
	order    bool // C06: order oracles after every event + redelivery leg with passive receivers
	fullSync bool // C09: full-sync probes at sampled quiescent points
	auth     bool // C02: authenticity oracles around every delivery
}

func runTree(r *core.Run, o treeOpts) {
	c := genTreeCfg(r)
	if o.order {
		c.passive = 1 + r.Src.Choose("passive", 3)
	}
	w := setupWorld(r, c, o)
	defer w.cleanup()
	adds := 0
	for n := 0; n < c.maxSteps; n++ {
		if !w.step(c, &adds) {
			break
		}
		if n%10 == 0 {
			w.r.State(core.Mix(0, w.fingerprintShape()))
		}
		if o.order && n%4 == 0 {
			w.crossOrderCheck("in run")
		}
		if o.fullSync && r.Src.Flip("probe", 0.15) {
			w.fullSyncProbe()
		}
	}
	w.r.Event("heal", "faults off: %d messages and %d streams in flight", len(w.msgs), len(w.streams))
	w.healAndConverge()
	w.r.State(core.Mix(0, w.fingerprintShape()))
	if o.order {
		w.crossOrderCheck("after convergence")
		w.redeliveryLeg()
	}
	if o.fullSync {
		for i := 0; i < 2; i++ {
			w.fullSyncProbe()
		}
	}
	nf := 0
	for _, v := range r.Faults {
		nf += v
	}
	r.Nontriv = len(w.created) >= 2 && (nf > 0 || c.faultFree)
}

// fingerprintShape abstracts a world state to per-replica (number of stored changes, number of heads).
func (w *world) fingerprintShape() string {
	s := ""
	for _, rep := range w.active() {
		if !rep.up || rep.tree == nil {
			s += "down;"
			continue
		}
		s += fmt.Sprintf("%d/%d;", len(rep.storedIds()), len(rep.heads()))
	}
	return s + fmt.Sprintf("m%d", minInt(len(w.msgs), 9))
}
