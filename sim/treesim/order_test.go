package treesim

import (
	"context"
	"sort"
	"strings"

	"github.com/anyproto/any-sync/commonspace/object/tree/objecttree"

	"verif/sim/core"
)

// C06 — change order is a function of the change set; incremental equals rebuilt.
// Differential oracles only (the sort itself is not re-implemented): stored order vs a tree rebuilt
// in full from storage, live (possibly reduced / reopened) view vs the full order restricted to its
// members, history views, equal sets on different replicas, stability of order ids, Append => prefix.

func init() { props["C06"] = func(r *core.Run) { runTree(r, treeOpts{order: true}) } }

func treeSeq(t objecttree.ReadableObjectTree) (seq []string, err error) {
	err = t.IterateRoot(nil, func(c *objecttree.Change) bool {
		seq = append(seq, c.Id)
		return true
	})
	return
}

// iterSeq is the sequence the live tree presents to consumers (IterateRoot).
func (rep *replica) iterSeq() []string {
	rep.tree.Lock()
	defer rep.tree.Unlock()
	seq, err := treeSeq(rep.tree)
	if err != nil {
		rep.w.r.Fail("iterate-failed", "", "%s: IterateRoot: %v", rep.name, err)
	}
	return seq
}

// storedSeq is the stored order (ascending order id).
func (rep *replica) storedSeq() (seq []string, orders map[string]string) {
	res, _ := rep.stored()
	orders = map[string]string{}
	for i, c := range res {
		if i > 0 && !(res[i-1].order < c.order) {
			rep.w.r.Fail("order-ids-not-increasing", "", "%s: GetAfterOrder returned %s (%q) after %s (%q)", rep.name, short(c.id), c.order, short(res[i-1].id), res[i-1].order)
		}
		seq = append(seq, c.id)
		orders[c.id] = c.order
	}
	return
}

// fullSeq rebuilds the whole tree from storage (history tree, full) and returns its order.
func (rep *replica) fullSeq() []string {
	ht, err := objecttree.BuildHistoryTree(objecttree.HistoryTreeParams{Storage: rep.treeStorage(), AclList: rep.acl})
	if err != nil {
		rep.w.r.Fail("rebuild-failed", "full", "%s: BuildHistoryTree(full): %v", rep.name, err)
	}
	seq, err := treeSeq(ht)
	if err != nil {
		rep.w.r.Fail("iterate-failed", "full", "%s: iterate full history tree: %v", rep.name, err)
	}
	return seq
}

func restrict(full []string, members []string) []string {
	m := map[string]bool{}
	for _, id := range members {
		m[id] = true
	}
	var out []string
	for _, id := range full {
		if m[id] {
			out = append(out, id)
		}
	}
	return out
}

func eqSeq(a, b []string) bool {
	if len(a) != len(b) {
		return false
	}
	for i := range a {
		if a[i] != b[i] {
			return false
		}
	}
	return true
}

// appendOK: the old sequence is a prefix of the new one, modulo members the view no longer contains
// (a tree reduced to a later snapshot presents a suffix): common members keep their relative order
// and every member that is new comes after all common members.
func appendOK(old, nw []string) (bool, string) {
	inOld := map[string]int{}
	for i, id := range old {
		inOld[id] = i
	}
	last := -1
	seenNew := ""
	for _, id := range nw {
		if i, ok := inOld[id]; ok {
			if seenNew != "" {
				return false, "already presented change " + short(id) + " comes after new change " + short(seenNew)
			}
			if i < last {
				return false, "relative order of already presented changes changed at " + short(id)
			}
			last = i
		} else if seenNew == "" {
			seenNew = id
		}
	}
	return true, ""
}

type orderListener struct{ rep *replica }

func (l *orderListener) Update(t objecttree.ObjectTree) error {
	rep := l.rep
	seq, err := treeSeq(t)
	if err != nil {
		rep.w.r.Fail("iterate-failed", "listener", "%s: %v", rep.name, err)
	}
	rep.w.r.Probe("append-verdict")
	if ok, why := appendOK(rep.lastSeq, seq); !ok {
		rep.w.r.Fail("append-not-prefix", "remote-add", "%s: an addition reported Append but %s\n before: %s\n after:  %s", rep.name, why, shorts(rep.lastSeq), shorts(seq))
	}
	rep.lastSeq = seq
	return nil
}

func (l *orderListener) Rebuild(t objecttree.ObjectTree) error {
	seq, err := treeSeq(t)
	if err != nil {
		l.rep.w.r.Fail("iterate-failed", "listener", "%s: %v", l.rep.name, err)
	}
	l.rep.w.r.Probe("rebuild-verdict")
	l.rep.lastSeq = seq
	return nil
}

// afterLocalAdd: AddContent reports Append.
func (w *world) orderAfterLocalAdd(rep *replica, mode objecttree.Mode) {
	seq := rep.iterSeq()
	if mode == objecttree.Append {
		if ok, why := appendOK(rep.lastSeq, seq); !ok {
			w.r.Fail("append-not-prefix", "local-add", "%s: AddContent reported Append but %s\n before: %s\n after:  %s", rep.name, why, shorts(rep.lastSeq), shorts(seq))
		}
	}
	rep.lastSeq = seq
}

// orderCheck evaluates the single-replica C06 oracles.
func (w *world) orderCheck(rep *replica, when string) (stored []string) {
	if !rep.up || rep.tree == nil {
		return nil
	}
	stored, orders := rep.storedSeq()
	_, byId := rep.stored()
	// causality in the stored order
	pos := map[string]int{}
	for i, id := range stored {
		pos[id] = i
	}
	for _, id := range stored {
		for _, p := range byId[id].prev {
			if pp, ok := pos[p]; ok && pp > pos[id] {
				w.r.Fail("order-violates-causality", "stored", "%s (%s): %s is stored before its parent %s", rep.name, when, short(id), short(p))
			}
		}
	}
	// order ids of stored changes never change
	if rep.orderIds == nil {
		rep.orderIds = map[string]string{}
	}
	for id, o := range orders {
		if prev, ok := rep.orderIds[id]; ok && prev != o {
			w.r.Fail("order-id-changed", "", "%s (%s): order id of stored change %s changed from %q to %q", rep.name, when, short(id), prev, o)
		}
		rep.orderIds[id] = o
	}
	full := rep.fullSeq()
	if !eqSeq(full, stored) {
		w.r.Fail("stored-order-differs-from-rebuilt", "", "%s (%s): stored order and the order of the tree rebuilt in full from storage differ\n stored:  %s\n rebuilt: %s", rep.name, when, shorts(stored), shorts(full))
	}
	// the add-sequence views (changes stored after insert number k) are the full order restricted to them
	var seqs []uint64
	seen := map[uint64]bool{}
	_ = rep.treeStorage().GetAfterAddSeq(ctxb, 0, func(_ context.Context, c objecttree.StorageChange) (bool, error) {
		if !seen[c.AddSeq] {
			seen[c.AddSeq] = true
			seqs = append(seqs, c.AddSeq)
		}
		return true, nil
	})
	sort.Slice(seqs, func(i, j int) bool { return seqs[i] < seqs[j] })
	cuts := []uint64{0}
	if len(seqs) > 1 {
		cuts = append(cuts, seqs[w.r.Src.Choose("addseq-cut", len(seqs))])
	}
	for _, k := range cuts {
		var view []string
		err := rep.treeStorage().GetAfterAddSeq(ctxb, k, func(_ context.Context, c objecttree.StorageChange) (bool, error) {
			view = append(view, c.Id)
			return true, nil
		})
		if err != nil {
			w.r.Fail("iterate-failed", "addseq", "%s (%s): GetAfterAddSeq(%d): %v", rep.name, when, k, err)
		}
		if want := restrict(full, view); !eqSeq(want, view) {
			w.r.Fail("addseq-view-order-differs", "", "%s (%s): the changes stored after insert number %d are presented as %s, the full order restricted to them is %s", rep.name, when, k, shorts(view), shorts(want))
		}
	}
	live := rep.iterSeq()
	if want := restrict(full, live); !eqSeq(want, live) || len(live) == 0 {
		w.r.Fail("live-order-differs", "", "%s (%s): the live tree presents %s but the full order restricted to these changes is %s", rep.name, when, shorts(live), shorts(want))
	}
	// causality in the presented order
	lpos := map[string]int{}
	for i, id := range live {
		lpos[id] = i
	}
	for _, id := range live {
		for _, p := range byId[id].prev {
			if pp, ok := lpos[p]; ok && pp > lpos[id] {
				w.r.Fail("order-violates-causality", "presented", "%s (%s): %s is presented before its parent %s", rep.name, when, short(id), short(p))
			}
		}
	}
	if len(live) < len(full) {
		w.r.Probe("reduced-view-checked")
	}
	w.r.Count("evals")
	return stored
}

// historyViewCheck: a history view up to a random change equals the full order restricted to it.
func (w *world) historyViewCheck(rep *replica, full []string) {
	if len(full) < 3 {
		return
	}
	id := full[1+w.r.Src.Choose("histid", len(full)-1)]
	ht, err := objecttree.BuildHistoryTree(objecttree.HistoryTreeParams{Storage: rep.treeStorage(), AclList: rep.acl, Heads: []string{id}, IncludeBeforeId: true})
	if err != nil {
		w.r.Fail("rebuild-failed", "history", "%s: BuildHistoryTree(heads=[%s]): %v", rep.name, short(id), err)
	}
	seq, err := treeSeq(ht)
	if err != nil {
		w.r.Fail("iterate-failed", "history", "%s: %v", rep.name, err)
	}
	if want := restrict(full, seq); !eqSeq(want, seq) || len(seq) == 0 || !contains(seq, id) {
		w.r.Fail("history-order-differs", "", "%s: history view up to %s presents %s, the full order restricted to it is %s", rep.name, short(id), shorts(seq), shorts(want))
	}
	w.r.Probe("history-view-checked")
}

func contains(l []string, x string) bool {
	for _, y := range l {
		if y == x {
			return true
		}
	}
	return false
}

// crossOrderCheck runs orderCheck everywhere and compares replicas that hold the same set.
func (w *world) crossOrderCheck(when string) {
	type view struct {
		rep *replica
		seq []string
	}
	groups := map[string][]view{}
	var keys []string
	for _, rep := range w.reps {
		if !rep.up || rep.tree == nil {
			continue
		}
		seq := w.orderCheck(rep, when)
		ids := append([]string{}, seq...)
		sortStrings(ids)
		k := strings.Join(ids, ",")
		if _, ok := groups[k]; !ok {
			keys = append(keys, k)
		}
		groups[k] = append(groups[k], view{rep, seq})
	}
	for _, k := range keys {
		g := groups[k]
		for i := 1; i < len(g); i++ {
			w.r.Probe("equal-sets-compared")
			if !eqSeq(g[0].seq, g[i].seq) {
				w.r.Fail("order-differs-between-replicas", "", "(%s) %s and %s store the same %d changes in different orders\n %s: %s\n %s: %s", when,
					g[0].rep.name, g[i].rep.name, len(g[0].seq), g[0].rep.name, shorts(g[0].seq), g[i].rep.name, shorts(g[i].seq))
			}
		}
		if len(g[0].seq) >= 3 && w.r.Src.Flip("histcheck", 0.3) {
			w.historyViewCheck(g[0].rep, g[0].seq)
		}
	}
}

// redeliveryLeg: passive receivers get the recorded head updates of the run in a seeded order, with
// duplicates and reopen-from-storage at random points; then one in-order pass completes them.
func (w *world) redeliveryLeg() {
	s := w.r.Src
	for _, p := range w.reps {
		if !p.passive {
			continue
		}
		n := len(w.huLog)
		perm := make([]int, n)
		for i := range perm {
			perm[i] = i
		}
		for i := n - 1; i > 0; i-- {
			j := s.Choose("perm", i+1)
			perm[i], perm[j] = perm[j], perm[i]
		}
		// a random subset in random order (whatever attaches, attaches)
		k := 0
		if n > 0 {
			k = s.Choose("subset", n+1)
		}
		for _, idx := range perm[:k] {
			w.deliverTo(p, w.huLog[idx])
			if s.Flip("dup", 0.1) {
				w.r.Fault("duplicate")
				w.deliverTo(p, w.huLog[idx])
			}
			if s.Flip("reopen", 0.08) {
				p.restart()
				p.lastSeq = p.iterSeq()
				w.r.Fault("restart")
				w.r.Event("passive-reopen", "%s", p.name)
			}
			w.checkReplica(p, "redelivery")
			w.orderCheck(p, "redelivery")
		}
		w.crossOrderCheck("redelivery (partial)")
		// completion pass in creation order
		for _, m := range w.huLog {
			w.deliverTo(p, m)
		}
		w.checkReplica(p, "redelivery complete")
		if len(p.storedIds()) != len(w.created)+1 {
			w.r.Probe("passive-incomplete")
		} else {
			w.r.Probe("passive-complete")
		}
	}
	w.crossOrderCheck("redelivery (complete)")
}

func (w *world) deliverTo(p *replica, m *message) {
	cp := *m
	cp.dst = p.idx
	w.seq++
	cp.seq = w.seq
	w.deliver(&cp)
}
