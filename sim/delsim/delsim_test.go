// Package delsim: object deletion in a space (C15).
// Real code: deletionstate, deletionmanager (deleter + delete loop goroutine on the fake clock),
// settings object + settingsstate over a real sync tree, synctree/objecttree for the objects,
// headsync.DiffManager fed by the head-storage observer, headstorage, spacestorage, any-store.
// Harness-owned: the tree manager (cache + real build/put functions; DeleteTree is a blocking point
// the scheduler releases, so a restart can fall between "queued" and "deleted" and between two objects
// of one pass), the transport, account/config components.
package delsim

import (
	"context"
	"errors"
	"fmt"
	"os"
	"path/filepath"
	"sort"
	"strings"
	"sync/atomic"
	"testing"
	"testing/synctest"
	"time"

	anystore "github.com/anyproto/any-store"
	"github.com/anyproto/any-store/query"
	"google.golang.org/protobuf/proto"

	"github.com/anyproto/any-sync/accountservice"
	"github.com/anyproto/any-sync/app"
	"github.com/anyproto/any-sync/commonspace/config"
	"github.com/anyproto/any-sync/commonspace/credentialprovider"
	"github.com/anyproto/any-sync/commonspace/deletionmanager"
	"github.com/anyproto/any-sync/commonspace/deletionstate"
	"github.com/anyproto/any-sync/commonspace/headsync"
	"github.com/anyproto/any-sync/commonspace/headsync/headstorage"
	"github.com/anyproto/any-sync/commonspace/object/accountdata"
	"github.com/anyproto/any-sync/commonspace/object/acl/list"
	"github.com/anyproto/any-sync/commonspace/object/acl/recordverifier"
	"github.com/anyproto/any-sync/commonspace/object/acl/syncacl"
	"github.com/anyproto/any-sync/commonspace/object/keyvalue/kvinterfaces"
	"github.com/anyproto/any-sync/commonspace/object/tree/objecttree"
	"github.com/anyproto/any-sync/commonspace/object/tree/synctree"
	"github.com/anyproto/any-sync/commonspace/object/tree/synctree/response"
	"github.com/anyproto/any-sync/commonspace/object/tree/synctree/updatelistener"
	"github.com/anyproto/any-sync/commonspace/object/tree/treechangeproto"
	"github.com/anyproto/any-sync/commonspace/object/tree/treestorage"
	"github.com/anyproto/any-sync/commonspace/object/treemanager"
	"github.com/anyproto/any-sync/commonspace/object/treesyncer"
	"github.com/anyproto/any-sync/commonspace/peermanager"
	"github.com/anyproto/any-sync/commonspace/settings"
	"github.com/anyproto/any-sync/commonspace/settings/settingsstate"
	"github.com/anyproto/any-sync/commonspace/spacestate"
	"github.com/anyproto/any-sync/commonspace/spacestorage"
	"github.com/anyproto/any-sync/commonspace/spacesyncproto"
	"github.com/anyproto/any-sync/commonspace/sync/objectsync/objectmessages"
	"github.com/anyproto/any-sync/commonspace/sync/syncdeps"
	"github.com/anyproto/any-sync/commonspace/syncstatus"
	"github.com/anyproto/any-sync/net/peer"
	"github.com/anyproto/any-sync/nodeconf"
	"github.com/anyproto/any-sync/util/simhook"
	"storj.io/drpc"

	"verif/sim/core"
	"verif/sim/faultstore"
	"verif/sim/simlib"
)

var props = map[string]core.PropFn{"C15": runC15}

func TestSim(t *testing.T) {
	core.QuietLogs()
	core.Main(t, "delsim", props)
}

var ctxb = context.Background()

func must(err error) {
	if err != nil {
		panic(err)
	}
}

type obj struct {
	n      int
	id     string
	parent *obj // bound child of parent
	root   *treechangeproto.RawTreeChangeWithId
}

func (o *obj) String() string {
	if o.parent != nil {
		return fmt.Sprintf("obj%d(child of obj%d)", o.n, o.parent.n)
	}
	return fmt.Sprintf("obj%d", o.n)
}

type hmsg struct {
	seq      int
	src, dst int
	treeId   string
	bytes    []byte
}

type world struct {
	r     *core.Run
	dir   string
	space *simlib.Space
	accs  []*simlib.Account
	nodes []*dnode
	objs  []*obj
	byId  map[string]*obj
	msgs  []*hmsg
	seq   int
	reqQ  []pendingReq
	salt  int
	snapP int // per mille of deletion records that are snapshots
}

type accComp struct{ keys *accountdata.AccountKeys }

func (a *accComp) Init(*app.App) error               { return nil }
func (a *accComp) Name() string                      { return accountservice.CName }
func (a *accComp) Account() *accountdata.AccountKeys { return a.keys }

type dnode struct {
	w        *world
	idx      int
	name     string
	acc      *simlib.Account
	dir      string
	db       anystore.DB
	raw      anystore.DB
	plan     *faultstore.Plan // non-nil: this node's storage calls can fail (armed during delete-worker steps)
	hadFault bool
	faulty   bool
	final    bool // the final restart has happened
	ss       spacestorage.SpaceStorage
	acl      list.AclList
	a        *app.App
	delState deletionstate.ObjectDeletionState
	delMgr   deletionmanager.DeletionManager
	settings settings.SettingsObject
	trees    map[string]synctree.SyncTree
	hs       headsync.HeadSync
	up       bool
	client   *dclient
	// the deleter goroutine parks here inside DeleteTree
	parked  chan string   // id the deleter wants to delete (sent when it parks)
	release chan struct{} // closed/sent to let it proceed
	waiting string        // id currently parked ("" = none)
	workerG uint64        // goroutine of the delete worker (seen at its blocking point)
	// oracle bookkeeping (survives restarts)
	tomb      map[string]headstorage.DeletedStatus
	leftDiff  map[string]bool
	exists    map[string]bool
	lateChild map[string]bool
}

// ---- tree manager (harness) ----------------------------------------------------------------------------

type treeMgr struct{ n *dnode }

func (t *treeMgr) Init(*app.App) error         { return nil }
func (t *treeMgr) Name() string                { return treemanager.CName }
func (t *treeMgr) Run(context.Context) error   { return nil }
func (t *treeMgr) Close(context.Context) error { return nil }

func (t *treeMgr) GetTree(ctx context.Context, spaceId, treeId string) (objecttree.ObjectTree, error) {
	return t.n.getTree(ctx, treeId)
}

func (t *treeMgr) ValidateAndPutTree(ctx context.Context, spaceId string, payload treestorage.TreeStorageCreatePayload) error {
	return errors.New("not used")
}

func (t *treeMgr) MarkTreeDeleted(ctx context.Context, spaceId, treeId string) error { return nil }

// DeleteTree is called by the delete loop goroutine: a scheduler-released blocking point.
func (t *treeMgr) DeleteTree(ctx context.Context, spaceId, treeId string) error {
	n := t.n
	n.waiting = treeId
	n.workerG = core.Goid()
	select {
	case <-n.release:
	case <-ctx.Done():
		n.waiting = ""
		return ctx.Err()
	}
	n.waiting = ""
	tr, err := n.getTree(ctx, treeId)
	if err != nil {
		return err
	}
	err = tr.(synctree.SyncTree).Delete()
	delete(n.trees, treeId)
	return err
}

func (n *dnode) getTree(ctx context.Context, id string) (synctree.SyncTree, error) {
	if t, ok := n.trees[id]; ok {
		return t, nil
	}
	t, err := synctree.BuildSyncTreeOrGetRemote(ctx, id, n.deps(nil))
	if err != nil {
		return nil, err
	}
	n.trees[id] = t
	return t, nil
}

func (n *dnode) deps(l updatelistener.UpdateListener) synctree.BuildDeps {
	return synctree.BuildDeps{
		SpaceId: n.w.space.Id, SyncClient: n.client, AclList: n.acl, SpaceStorage: n.ss, Listener: l,
		OnClose: func(string) {}, SyncStatus: syncstatus.NewNoOpSyncStatus(), PeerGetter: n, BuildObjectTree: objecttree.BuildObjectTree,
	}
}

func (n *dnode) GetResponsiblePeers(ctx context.Context) ([]peer.Peer, error) {
	return nil, errors.New("no responsible peers in simulation")
}

// ---- transport --------------------------------------------------------------------------------------------

type dclient struct {
	synctree.RequestFactory
	n *dnode
}

func pname(i int) string { return fmt.Sprintf("n%d", i) }

func (c *dclient) Broadcast(ctx context.Context, hu *objectmessages.HeadUpdate) error {
	w := c.n.w
	for _, o := range w.nodes {
		if o.idx == c.n.idx {
			continue
		}
		cp := hu.Copy().(*objectmessages.HeadUpdate)
		cp.SetPeerId(o.name)
		pm, err := cp.ProtoMessage()
		if err != nil {
			return err
		}
		b, err := pm.(*spacesyncproto.ObjectSyncMessage).MarshalVT()
		if err != nil {
			return err
		}
		w.seq++
		w.msgs = append(w.msgs, &hmsg{seq: w.seq, src: c.n.idx, dst: o.idx, treeId: hu.ObjectId(), bytes: b})
	}
	return nil
}

// requests are served at once (the schedule dimension of this engine is in head updates, deleter steps
// and restarts)
func (c *dclient) QueueRequest(ctx context.Context, req syncdeps.Request) error {
	c.n.w.reqQ = append(c.n.w.reqQ, pendingReq{c.n, req}) // callers hold the tree lock: served by the event loop
	return nil
}

type pendingReq struct {
	from *dnode
	req  syncdeps.Request
}

func (w *world) flushReqs() {
	for len(w.reqQ) > 0 {
		p := w.reqQ[0]
		w.reqQ = w.reqQ[1:]
		if p.from.up {
			_ = w.serve(p.from, p.req, nil)
		}
	}
}

func (c *dclient) SendTreeRequest(ctx context.Context, req syncdeps.Request, collector syncdeps.ResponseCollector) error {
	return c.n.w.serve(c.n, req, collector)
}

type noQueue struct{}

func (noQueue) UpdateQueueSize(uint64, int, bool) {}

func (w *world) serve(from *dnode, req syncdeps.Request, collector syncdeps.ResponseCollector) error {
	var srv *dnode
	for _, o := range w.nodes {
		if o.name == req.PeerId() {
			srv = o
		}
	}
	if srv == nil || !srv.up {
		return fmt.Errorf("peer %s unavailable", req.PeerId())
	}
	pm, err := req.Proto()
	if err != nil {
		return err
	}
	b, err := pm.(*spacesyncproto.ObjectSyncMessage).MarshalVT()
	if err != nil {
		return err
	}
	msg := &spacesyncproto.ObjectSyncMessage{}
	must(msg.UnmarshalVT(b))
	var handler syncdeps.ObjectSyncHandler
	if msg.ObjectId == srv.settings.Id() {
		handler = srv.settings
	} else {
		t, ok := srv.trees[msg.ObjectId]
		if !ok {
			tt, err := srv.getTree(ctxb, msg.ObjectId) // local storage only (no peer in ctx)
			if err != nil {
				return fmt.Errorf("responder has no such tree: %w", err)
			}
			t = tt
		}
		handler = t
	}
	rq := objectmessages.NewByteRequest(from.name, msg.SpaceId, msg.ObjectId, msg.Payload)
	var batches [][]byte
	_, err = handler.HandleStreamRequest(peer.CtxWithPeerId(ctxb, from.name), rq, noQueue{}, func(resp proto.Message) error {
		bb, e := resp.(*spacesyncproto.ObjectSyncMessage).MarshalVT()
		batches = append(batches, bb)
		return e
	})
	if err != nil {
		return err
	}
	for _, bb := range batches {
		m := &spacesyncproto.ObjectSyncMessage{}
		must(m.UnmarshalVT(bb))
		if collector != nil {
			resp := collector.NewResponse()
			if err := resp.(*response.Response).SetProtoMessage(m); err != nil {
				return err
			}
			if err := collector.CollectResponse(ctxb, srv.name, req.ObjectId(), resp); err != nil {
				return err
			}
			continue
		}
		resp := &response.Response{}
		if err := resp.SetProtoMessage(m); err != nil {
			return err
		}
		var h syncdeps.ObjectSyncHandler
		if m.ObjectId == from.settings.Id() {
			h = from.settings
		} else if t, ok := from.trees[m.ObjectId]; ok {
			h = t
		}
		if h != nil {
			_ = h.HandleResponse(peer.CtxWithPeerId(ctxb, srv.name), srv.name, m.ObjectId, resp)
		}
	}
	return nil
}

// ---- node lifecycle -----------------------------------------------------------------------------------------

type aclStub struct {
	syncacl.SyncAcl
	l list.AclList
}

func (a aclStub) Id() string            { return a.l.Id() }
func (a aclStub) Head() *list.AclRecord { return a.l.Head() }

// harness components the real head-sync component asks for
type dsConfig struct{}

func (dsConfig) Init(*app.App) error     { return nil }
func (dsConfig) Name() string            { return "config" }
func (dsConfig) GetSpace() config.Config { return config.Config{} }

func (a aclStub) Init(*app.App) error         { return nil }
func (a aclStub) Name() string                { return syncacl.CName }
func (a aclStub) Run(context.Context) error   { return nil }
func (a aclStub) Close(context.Context) error { return nil }

type dsNodeConf struct{ nodeconf.NodeConf }

func (dsNodeConf) Init(*app.App) error { return nil }
func (dsNodeConf) Name() string        { return nodeconf.CName }

type dsPeerManager struct{}

func (dsPeerManager) Init(*app.App) error                                      { return nil }
func (dsPeerManager) Name() string                                             { return peermanager.CName }
func (dsPeerManager) GetResponsiblePeers(context.Context) ([]peer.Peer, error) { return nil, nil }
func (dsPeerManager) GetNodePeers(context.Context) ([]peer.Peer, error)        { return nil, nil }
func (dsPeerManager) BroadcastMessage(context.Context, drpc.Message) error     { return nil }
func (dsPeerManager) SendMessage(context.Context, string, drpc.Message) error  { return nil }
func (dsPeerManager) KeepAlive(context.Context)                                {}

type dsTreeSyncer struct{}

func (dsTreeSyncer) Init(*app.App) error                                          { return nil }
func (dsTreeSyncer) Name() string                                                 { return treesyncer.CName }
func (dsTreeSyncer) Run(context.Context) error                                    { return nil }
func (dsTreeSyncer) Close(context.Context) error                                  { return nil }
func (dsTreeSyncer) StartSync()                                                   {}
func (dsTreeSyncer) StopSync()                                                    {}
func (dsTreeSyncer) ShouldSync(string) bool                                       { return false }
func (dsTreeSyncer) SyncAll(context.Context, peer.Peer, []string, []string) error { return nil }

type dsKeyValue struct{ kvinterfaces.KeyValueService }

func (dsKeyValue) Init(*app.App) error         { return nil }
func (dsKeyValue) Name() string                { return kvinterfaces.CName }
func (dsKeyValue) Run(context.Context) error   { return nil }
func (dsKeyValue) Close(context.Context) error { return nil }

func (n *dnode) start(create bool) {
	w := n.w
	n.raw = simlib.OpenStore(filepath.Join(n.dir, "store.db"))
	n.db = n.raw
	if n.plan != nil {
		n.db = faultstore.Wrap(n.raw, n.plan)
	}
	var err error
	if create {
		n.ss, err = spacestorage.Create(ctxb, n.db, w.space.Payload)
	} else {
		n.ss, err = spacestorage.New(ctxb, w.space.Id, n.db)
	}
	must(err)
	aclSt, err := n.ss.AclStorage()
	must(err)
	n.acl, err = list.BuildAclListWithIdentity(n.acc.Keys, aclSt, recordverifier.NewValidateFull())
	must(err)
	if create {
		for _, rec := range w.space.Records {
			must(n.acl.AddRawRecord(rec))
		}
	}
	n.trees = map[string]synctree.SyncTree{}
	n.parked, n.release = make(chan string), make(chan struct{})
	n.client = &dclient{RequestFactory: synctree.NewRequestFactory(w.space.Id), n: n}
	n.a = new(app.App)
	n.delState = deletionstate.New()
	n.delMgr = deletionmanager.New()
	n.hs = headsync.New()
	n.a.Register(n.ss).
		Register(&spacestate.SpaceState{SpaceId: w.space.Id, SpaceIsClosed: &atomic.Bool{}, TreesUsed: &atomic.Int32{}, TreeBuilderFunc: objecttree.BuildObjectTree}).
		Register(&treeMgr{n}).Register(&accComp{n.acc.Keys}).Register(n.delState).Register(n.delMgr).
		Register(dsConfig{}).Register(aclStub{l: n.acl}).Register(dsNodeConf{}).Register(dsPeerManager{}).Register(credentialprovider.NewNoOp()).
		Register(dsTreeSyncer{}).Register(dsKeyValue{}).Register(n.hs)
	// On a restart the delete worker (started by the deletion manager, which runs before head sync) may get
	// through its pending work while head sync is still starting: the seed decides whether the worker is
	// stepped in the middle of head sync's start-up (at the storage write that ends the index fill).
	if !create && n.plan != nil && w.r.Src.Flip("worker-runs-during-head-sync-start", 0.5) {
		stepped := false
		n.plan.Hook = func(_ int, name string) {
			if stepped || !strings.Contains(name, "coll(state).UpsertId") {
				return
			}
			stepped = true
			for k := 0; k < 3; k++ {
				synctest.Wait()
				if n.waiting == "" {
					break
				}
				n.release <- struct{}{}
				w.r.Probe("worker-stepped-during-head-sync-start")
			}
			synctest.Wait()
		}
		n.plan.Calls, n.plan.FailAt, n.plan.Armed = nil, 0, true
	}
	err = n.a.Start(ctxb)
	if n.plan != nil {
		n.plan.Armed, n.plan.Hook = false, nil
	}
	if err != nil {
		w.r.Fail("node-start-failed", "", "%s: %v", n.name, err)
	}
	synctest.Wait() // the delete loop's first pass runs up to its first blocking point
	n.settings = settings.NewSettingsObject(settings.Deps{
		BuildFunc: func(ctx context.Context, id string, l updatelistener.UpdateListener) (synctree.SyncTree, error) {
			return synctree.BuildSyncTreeOrGetRemote(ctx, id, n.deps(l))
		},
		Account: &accComp{n.acc.Keys}, TreeManager: &treeMgr{n}, Store: n.ss, DelManager: n.delMgr,
	}, w.space.Id)
	if err := n.settings.Init(ctxb); err != nil {
		w.r.Fail("node-start-failed", "settings", "%s: settings object: %v", n.name, err)
	}
	synctest.Wait()
	n.up = true
}

func (n *dnode) stop() {
	n.up = false
	_ = n.settings.Close()
	_ = n.a.Close(ctxb) // cancels the delete loop (a parked DeleteTree returns ctx.Err)
	synctest.Wait()
	_ = n.raw.Close()
	n.waiting = ""
}

// ---- events ----------------------------------------------------------------------------------------------------

func (w *world) createObject(n *dnode, parent *obj) {
	o := &obj{n: len(w.objs) + 1, parent: parent}
	var err error
	if parent == nil {
		seed := make([]byte, 32)
		_, _ = w.r.Crypto.Read(seed)
		o.root, err = objecttree.CreateObjectTreeRoot(objecttree.ObjectTreeCreatePayload{PrivKey: n.acc.Keys.SignKey, ChangeType: "sim.obj", ChangePayload: []byte(fmt.Sprint(o.n)),
			SpaceId: w.space.Id, Seed: seed, Timestamp: 946684800}, n.acl)
	} else {
		o.root, err = objecttree.DeriveObjectTreeRoot(objecttree.ObjectTreeDerivePayload{ChangeType: "sim.child", ChangePayload: []byte(fmt.Sprint(o.n)), SpaceId: w.space.Id, ParentId: parent.id}, n.acl)
	}
	must(err)
	o.id = o.root.Id
	if _, dup := w.byId[o.id]; dup {
		return
	}
	t, err := synctree.PutSyncTree(ctxb, treestorage.TreeStorageCreatePayload{RootRawChange: o.root, Changes: []*treechangeproto.RawTreeChangeWithId{o.root}, Heads: []string{o.id}}, n.deps(nil))
	w.objs = append(w.objs, o)
	w.byId[o.id] = o
	if err != nil {
		w.r.Event("create-refused", "%s on %s: %v", o, n.name, short(err))
		if parent != nil && n.tomb[parent.id] == 0 && !errors.Is(err, objecttree.ErrParentNotFound) {
			w.r.Fail("create-failed", "", "%s cannot create %s: %v", n.name, o, err)
		}
		return
	}
	n.trees[o.id] = t
	if parent != nil && n.tomb[parent.id] >= headstorage.DeletedStatusQueued {
		w.r.Probe("late-child-of-deleted-parent")
		n.lateChild[o.id] = true
	}
	w.r.Event("create", "%s on %s", o, n.name)
	w.edit(n, o)
}

func (w *world) edit(n *dnode, o *obj) {
	t, err := n.getTree(ctxb, o.id)
	if err != nil {
		w.r.Event("edit-refused", "%s on %s: %v", o, n.name, short(err))
		return
	}
	t.Lock()
	_, err = t.AddContent(ctxb, objecttree.SignableChangeContent{Data: []byte("x"), Key: n.acc.Keys.SignKey, Timestamp: int64(946684900 + w.seq)})
	t.Unlock()
	w.r.Event("edit", "%s on %s: %v", o, n.name, short(err))
}

func short(err error) string {
	if err == nil {
		return "ok"
	}
	s := err.Error()
	if len(s) > 70 {
		s = s[:70]
	}
	return s
}

func (w *world) deliver(m *hmsg) {
	dst := w.nodes[m.dst]
	if !dst.up {
		w.r.Event("deliver-down", "#%d to %s", m.seq, dst.name)
		return
	}
	msg := &spacesyncproto.ObjectSyncMessage{}
	must(msg.UnmarshalVT(m.bytes))
	hu := &objectmessages.HeadUpdate{}
	must(hu.SetProtoMessage(msg))
	hu.SetPeerId(pname(m.src))
	ctx := peer.CtxWithPeerId(ctxb, pname(m.src))
	var h syncdeps.ObjectSyncHandler
	what := "settings"
	if m.treeId == dst.settings.Id() {
		h = dst.settings
	} else {
		o := w.byId[m.treeId]
		what = o.String()
		// the object-sync dispatcher asks the tree manager (which fetches unknown trees from the sender)
		tombstoned := dst.tomb[m.treeId] >= headstorage.DeletedStatusQueued
		rowsBefore := dst.rows(m.treeId)
		t, err := dst.getTree(ctx, m.treeId)
		if tombstoned && rowsBefore == 0 {
			w.r.Probe("late-head-update-for-deleted")
			if err == nil || dst.rows(m.treeId) > 0 {
				w.r.Fail("deleted-object-resurrected", "head-update", "%s: a head update for %s, whose deletion is recorded (status %d) and which is not stored, brought the tree back (open err=%v, %d rows stored)", dst.name, o, dst.tomb[m.treeId], err, dst.rows(m.treeId))
			}
		}
		if err != nil {
			w.r.Event("deliver-hu", "#%d %s->%s %s: tree unavailable: %v", m.seq, pname(m.src), dst.name, what, short(err))
			return
		}
		if o.parent != nil && rowsBefore == 0 && dst.tomb[o.parent.id] >= headstorage.DeletedStatusQueued {
			w.r.Probe("late-child-of-deleted-parent")
			dst.lateChild[o.id] = true
		}
		h = t
	}
	req, err := h.HandleHeadUpdate(ctx, syncstatus.NewNoOpSyncStatus(), hu)
	w.r.Event("deliver-hu", "#%d %s->%s %s: req=%v %v", m.seq, pname(m.src), dst.name, what, req != nil, short(err))
	if req != nil {
		_ = w.serve(dst, req, nil)
	}
	w.flushReqs()
	synctest.Wait()
}

// ---- oracles ------------------------------------------------------------------------------------------------------

func (n *dnode) entries() map[string]headstorage.HeadsEntry {
	out := map[string]headstorage.HeadsEntry{}
	for _, del := range []bool{false, true} {
		err := n.ss.HeadStorage().IterateEntries(ctxb, headstorage.IterOpts{Deleted: del}, func(e headstorage.HeadsEntry) (bool, error) {
			out[e.Id] = e
			return true, nil
		})
		if err != nil {
			n.w.r.Fail("head-storage-unreadable", "", "%s: %v", n.name, err)
		}
	}
	return out
}

func (n *dnode) check(when string) {
	if !n.up {
		return
	}
	w, r := n.w, n.w.r
	w.flushReqs()
	synctest.Wait() // the head updater applies queued head-storage updates on its own goroutine
	ents := n.entries()
	inDiff := map[string]bool{}
	for _, id := range n.hs.AllIds() {
		inDiff[id] = true
	}
	for _, o := range w.objs {
		e, has := ents[o.id]
		st := headstorage.DeletedStatusNotDeleted
		if has {
			st = e.DeletedStatus
		}
		// the tombstone is monotone, across restarts
		if prev := n.tomb[o.id]; st < prev {
			r.Fail("tombstone-regressed", "", "%s (%s): %s went from deleted-status %d back to %d", n.name, when, o, prev, st)
		}
		if st > n.tomb[o.id] {
			n.tomb[o.id] = st
		}
		tombstoned := n.tomb[o.id] >= headstorage.DeletedStatusQueued
		// the deletion set only grows
		ex := n.delState.Exists(o.id)
		if n.exists[o.id] && !ex && !tombstoned {
			r.Fail("deleted-set-shrank", "", "%s (%s): %s was in the deletion state and is no longer", n.name, when, o)
		}
		if ex {
			n.exists[o.id] = true
		}
		if !tombstoned {
			continue
		}
		// it leaves the advertised index and does not return
		if inDiff[o.id] {
			r.Fail("deleted-object-advertised", "", "%s (%s): %s is tombstoned (status %d) but its id is in the head index", n.name, when, o, st)
		}
		// after the deleter ran: no change rows
		if st == headstorage.DeletedStatusDeleted {
			if cnt := n.rows(o.id); cnt > 0 {
				r.Fail("deleted-object-has-changes", "", "%s (%s): %s has deleted-status Deleted but %d change rows are stored", n.name, when, o, cnt)
			}
		}
	}
	// children bound to a deleted parent are queued with it once the deleter has handled the parent
	{
		for _, o := range w.objs {
			if o.parent == nil {
				continue
			}
			e, has := ents[o.id]
			if !has {
				continue
			}
			// (after a failed storage call the cascade to a child may be left undone until the orphan scan of the
			// next start: judged after the final restart for such a node)
			if n.waiting == "" && (!n.hadFault || n.final) && n.tomb[o.parent.id] >= headstorage.DeletedStatusDeleted && e.DeletedStatus < headstorage.DeletedStatusQueued {
				r.Fail("child-not-queued", "", "%s (%s): %s is stored, its parent is deleted, but the child is not queued for deletion", n.name, when, o)
			}
			if n.lateChild[o.id] && e.DeletedStatus < headstorage.DeletedStatusQueued {
				r.Fail("child-not-queued", "late", "%s (%s): %s arrived after its parent's deletion was recorded but is not queued for deletion", n.name, when, o)
			}
		}
	}
	r.Count("evals")
}

// rows: change rows stored for a tree id, counted on the collection itself.
func (n *dnode) rows(id string) int {
	coll, err := n.db.OpenCollection(ctxb, objecttree.CollName)
	if err != nil {
		return 0
	}
	cnt, err := coll.Find(query.Key{Path: []string{objecttree.TreeKey}, Filter: query.NewComp(query.CompOpEq, id)}).Count(ctxb)
	if err != nil {
		n.w.r.Fail("changes-unreadable", "", "%s: %v", n.name, err)
	}
	return cnt
}

// resurrect: put / fetch / late head update for a tombstoned id must fail and create nothing.
func (w *world) resurrect(n *dnode, o *obj) {
	r := w.r
	if n.tomb[o.id] < headstorage.DeletedStatusQueued {
		return
	}
	_, stored := n.ss.TreeStorage(ctxb, o.id)
	t, err := synctree.PutSyncTree(ctxb, treestorage.TreeStorageCreatePayload{RootRawChange: o.root, Changes: []*treechangeproto.RawTreeChangeWithId{o.root}, Heads: []string{o.id}}, n.deps(nil))
	if err == nil {
		_ = t
		r.Fail("deleted-object-resurrected", "put", "%s: putting %s succeeded although its deletion is recorded (status %d)", n.name, o, n.tomb[o.id])
	}
	if !errors.Is(err, spacestorage.ErrTreeStorageAlreadyDeleted) {
		r.Fail("deleted-object-resurrected", "put-error", "%s: putting tombstoned %s failed with %v instead of 'already deleted'", n.name, o, err)
	}
	if stored != nil { // not stored locally: a fetch must not bring it back
		var src *dnode
		for _, x := range w.nodes {
			if x != n && x.up {
				if _, err := x.ss.TreeStorage(ctxb, o.id); err == nil {
					src = x
				}
			}
		}
		if src != nil {
			delete(n.trees, o.id)
			if _, err := synctree.BuildSyncTreeOrGetRemote(peer.CtxWithPeerId(ctxb, src.name), o.id, n.deps(nil)); err == nil {
				r.Fail("deleted-object-resurrected", "fetch", "%s: fetching tombstoned %s from %s succeeded", n.name, o, src.name)
			} else if !errors.Is(err, spacestorage.ErrTreeStorageAlreadyDeleted) {
				r.Probe("fetch-refused-other-error")
			}
			r.Probe("fetch-of-deleted-refused")
		}
	}
	r.Probe("put-of-deleted-refused")
	r.Event("resurrect-attempt", "%s %s: refused", n.name, o)
}

// settingsSets: the deleted-id set derived from scratch from the settings log of node n.
func (n *dnode) fromScratch() map[string]struct{} {
	ht, err := objecttree.BuildHistoryTree(objecttree.HistoryTreeParams{Storage: n.settings.Storage(), AclList: n.acl})
	if err != nil {
		n.w.r.Fail("settings-history-failed", "", "%s: %v", n.name, err)
	}
	st, err := settingsstate.NewStateBuilder().Build(ht, nil)
	if err != nil {
		n.w.r.Fail("settings-history-failed", "build", "%s: %v", n.name, err)
	}
	return st.DeletedIds
}

// refDeleted: the deletions recorded in node n's settings log, read by the harness itself from the stored
// changes (every change's own delete entries; snapshots are not trusted), independent of the state builder.
func (n *dnode) refDeleted() map[string]bool {
	out := map[string]bool{}
	_ = n.settings.Storage().GetAfterOrder(ctxb, "", func(_ context.Context, c objecttree.StorageChange) (bool, error) {
		raw := &treechangeproto.RawTreeChange{}
		if raw.UnmarshalVT(c.RawChange) != nil {
			return true, nil
		}
		tc := &treechangeproto.TreeChange{}
		if tc.UnmarshalVT(raw.Payload) != nil || len(tc.TreeHeadIds) == 0 {
			return true, nil // the root
		}
		sd := &spacesyncproto.SettingsData{}
		if sd.UnmarshalVT(tc.ChangesData) != nil {
			return true, nil
		}
		for _, cnt := range sd.Content {
			if d := cnt.GetObjectDelete(); d != nil {
				out[d.GetId()] = true
			}
		}
		return true, nil
	})
	return out
}

func (w *world) settingsCheck(when string) {
	type view struct {
		n   *dnode
		set string
	}
	groups := map[string][]view{}
	for _, n := range w.nodes {
		if !n.up {
			continue
		}
		scratch := n.fromScratch()
		ref := n.refDeleted()
		for id := range ref {
			if _, ok := scratch[id]; !ok {
				w.r.Fail("derived-set-misses-recorded-deletion", "scratch", "%s (%s): the settings log holds a change deleting %s, but the set derived from scratch from that log does not contain it", n.name, when, w.byId[id])
			}
			if !n.delState.Exists(id) {
				w.r.Fail("derived-set-misses-recorded-deletion", "incremental", "%s (%s): the settings log holds a change deleting %s, but the node's deletion state does not contain it", n.name, when, w.byId[id])
			}
		}
		for id := range scratch {
			if !ref[id] {
				w.r.Fail("derived-set-has-unrecorded-deletion", "", "%s (%s): the set derived from the settings log contains %s, which no change of the log deletes", n.name, when, w.byId[id])
			}
		}
		var names []string
		for id := range scratch {
			if o := w.byId[id]; o != nil {
				names = append(names, o.String())
				// incremental derivation covers the from-scratch one
				if !n.delState.Exists(id) {
					w.r.Fail("incremental-misses-deletion", "", "%s (%s): the settings log records the deletion of %s but the node's deletion state does not contain it", n.name, when, o)
				}
			}
		}
		sort.Strings(names)
		var chs []string
		_ = n.settings.Storage().GetAfterOrder(ctxb, "", func(_ context.Context, c objecttree.StorageChange) (bool, error) {
			chs = append(chs, c.Id)
			return true, nil
		})
		sort.Strings(chs)
		k := strings.Join(chs, ",")
		groups[k] = append(groups[k], view{n, strings.Join(names, ",")})
	}
	for _, g := range groups {
		for i := 1; i < len(g); i++ {
			if g[i].set != g[0].set {
				w.r.Fail("deleted-sets-differ", "", "(%s) %s and %s hold the same settings log but derive different deleted sets: [%s] vs [%s]", when, g[0].n.name, g[i].n.name, g[0].set, g[i].set)
			}
		}
	}
}

// ---- the run ----------------------------------------------------------------------------------------------------------

func runC15(r *core.Run) {
	s := r.Src
	w := &world{r: r, byId: map[string]*obj{}}
	w.dir = simlib.ScratchDir("del")
	defer os.RemoveAll(w.dir)
	// The order in which a delete pass visits the queued ids is a pure function of a per-step salt drawn by
	// the event loop: a worker cancelled while a notification is pending may or may not start one more
	// (immediately abandoned) pass - Go's select picks at random - so passes must not consume choices.
	simhook.PermFn = func(point string, n int) []int {
		if n < 2 {
			return nil
		}
		p := make([]int, n)
		for i := range p {
			p[i] = i
		}
		x := core.SplitMix(uint64(w.salt)<<8 | uint64(n&0xff))
		for i := n - 1; i > 0; i-- {
			x = core.SplitMix(x)
			j := int(x % uint64(i+1))
			p[i], p[j] = p[j], p[i]
		}
		return p
	}
	defer func() { simhook.PermFn = nil }()
	w.snapP = []int{0, 200, 500}[s.Choose("snap", 3)]
	n := 0
	settings.DoSnapshot = func(treeLen int) bool { n++; return s.Choose("do-snapshot", 1000) < w.snapP }
	defer func() { settings.DoSnapshot = objecttree.DoSnapshot }()
	owner := simlib.NewAccount("owner")
	w.accs = []*simlib.Account{owner}
	w.space = simlib.NewSpace(owner, 0)
	nnodes := 2 + s.Choose("nnodes", 2)
	faultNode := -1
	if s.Flip("storage-faults", 0.3) {
		faultNode = s.Choose("fault-node", nnodes)
	}
	r.SetCfg("storage_fault_node", faultNode)
	for i := 1; i < nnodes; i++ {
		w.accs = append(w.accs, simlib.NewAccount(fmt.Sprintf("acc%d", i)))
	}
	w.space.Add(list.AclPermissionsWriter, w.accs[1:]...)
	for i := 0; i < nnodes; i++ {
		nd := &dnode{w: w, idx: i, name: pname(i), acc: w.accs[i], tomb: map[string]headstorage.DeletedStatus{}, leftDiff: map[string]bool{}, exists: map[string]bool{}, lateChild: map[string]bool{}}
		nd.dir = filepath.Join(w.dir, nd.name)
		must(os.MkdirAll(nd.dir, 0o755))
		nd.plan = &faultstore.Plan{Reads: true}
		nd.faulty = i == faultNode
		w.nodes = append(w.nodes, nd)
		nd.start(true)
	}
	defer func() {
		for _, nd := range w.nodes {
			if nd.up {
				nd.stop()
			}
		}
	}()
	steps := s.Range("steps", 15, 70)
	faultFree := s.Flip("faultfree", 0.1)
	wf := 2
	if faultFree {
		wf = 0
	}
	ups := func() []*dnode {
		var l []*dnode
		for _, nd := range w.nodes {
			if nd.up {
				l = append(l, nd)
			}
		}
		return l
	}
	restarts := 0
	for i := 0; i < steps; i++ {
		u := ups()
		if len(u) == 0 {
			break
		}
		w.salt = s.Choose("sched-salt", 4096)
		nm := len(w.msgs)
		var parked []*dnode
		for _, nd := range u {
			if nd.waiting != "" {
				parked = append(parked, nd)
			}
		}
		wRestart := wf
		if restarts >= 4 {
			wRestart = 0
		}
		act := s.Weighted("action", []int{5, 4, 5, 10 * min1(nm), wf * min1(nm), wf * min1(nm), 8 * min1(len(parked)), wRestart, 3, 2 * (1 - min1(len(parked))), 1})
		switch act {
		case 0: // create an object (sometimes a child bound to an existing object)
			nd := u[s.Choose("node", len(u))]
			var parent *obj
			if len(w.objs) > 0 && s.Flip("child", 0.35) {
				parent = w.objs[s.Choose("parent", len(w.objs))]
				if parent.parent != nil {
					parent = parent.parent
				}
			}
			w.createObject(nd, parent)
			nd.check("after create")
		case 1: // edit
			if len(w.objs) == 0 {
				continue
			}
			nd := u[s.Choose("node", len(u))]
			w.edit(nd, w.objs[s.Choose("obj", len(w.objs))])
			nd.check("after edit")
		case 2: // delete through the settings object
			if len(w.objs) == 0 {
				continue
			}
			nd := u[s.Choose("node", len(u))]
			o := w.objs[s.Choose("obj", len(w.objs))]
			err := nd.settings.DeleteObject(ctxb, o.id)
			synctest.Wait()
			r.Event("delete", "%s on %s: %v", o, nd.name, short(err))
			if err == nil {
				r.Probe("deletion-recorded")
			}
			nd.check("after delete")
		case 3:
			j := s.Choose("msg", nm)
			if j > 0 {
				r.Fault("reorder")
			}
			m := w.msgs[j]
			w.msgs = append(w.msgs[:j], w.msgs[j+1:]...)
			w.deliver(m)
			w.nodes[m.dst].check("after delivery")
		case 4:
			j := s.Choose("msg", nm)
			w.msgs = append(w.msgs[:j], w.msgs[j+1:]...)
			r.Fault("drop")
			r.Event("drop", "")
		case 5:
			m := *w.msgs[s.Choose("msg", nm)]
			w.seq++
			m.seq = w.seq
			w.msgs = append(w.msgs, &m)
			r.Fault("duplicate")
			r.Event("duplicate", "")
		case 6: // the delete worker proceeds by one object
			nd := parked[s.Choose("parked", len(parked))]
			id := nd.waiting
			armed := false
			if nd.faulty && s.Flip("storage-fault-in-step", 0.5) {
				nd.plan.Calls, nd.plan.FailAt, nd.plan.Armed = nil, 1+s.Choose("fail-at", 10), true
				// the head updater of head sync writes the space hash on its own goroutine while the worker goes
				// on: only the worker's calls are numbered, or the n-th call would differ between executions
				wg := nd.workerG
				nd.plan.Only = func() bool { return core.Goid() == wg }
				armed = true
			}
			nd.release <- struct{}{}
			synctest.Wait()
			failed := ""
			if armed {
				nd.plan.Armed = false
				nd.plan.Only = nil
				if nd.plan.Fired > 0 {
					r.Fault("storage-error")
					nd.hadFault = true
					failed = " (a storage call failed: " + nd.plan.Calls[len(nd.plan.Calls)-1] + ")"
					nd.plan.Fired = 0
				}
			}
			r.Event("deleter-step", "%s deletes %s%s", nd.name, w.byId[id], failed)
			nd.check("after deleter step")
		case 7: // restart (possibly between "queued" and "deleted", or between two objects of a pass)
			nd := u[s.Choose("node", len(u))]
			mid := nd.waiting != ""
			nd.stop()
			nd.start(false)
			restarts++
			r.Fault("restart")
			if mid {
				r.Fault("restart-mid-deletion")
			}
			r.Event("restart", "%s (deleter was mid-pass: %v)", nd.name, mid)

			nd.check("after restart")
		case 8: // somebody tries to bring a deleted object back
			nd := u[s.Choose("node", len(u))]
			var cand []*obj
			for _, o := range w.objs {
				if nd.tomb[o.id] >= headstorage.DeletedStatusQueued {
					cand = append(cand, o)
				}
			}
			if len(cand) == 0 {
				continue
			}
			w.resurrect(nd, cand[s.Choose("victim", len(cand))])
			nd.check("after resurrection attempt")
		case 10: // deletion recorded locally, without the settings log
			if len(w.objs) == 0 {
				continue
			}
			nd := u[s.Choose("node", len(u))]
			o := w.objs[s.Choose("obj", len(w.objs))]
			nd.delState.Add(map[string]struct{}{o.id: {}})
			synctest.Wait()
			r.Probe("deletion-recorded-locally")
			r.Event("local-delete", "%s on %s", o, nd.name)
			nd.check("after local delete")
		case 9: // the 20 s tick of the delete loop (only while every worker is idle: a worker that finds both its
			// ticker and a notification pending picks one by Go's random select)
			time.Sleep(21 * time.Second)
			synctest.Wait()
			r.Event("tick", "+21s")
		}
		if i%5 == 0 {
			w.settingsCheck("in run")
		}
	}
	// heal: everyone up, everything delivered, settings synced pairwise, deleters run to the end
	for _, nd := range w.nodes {
		if !nd.up {
			nd.start(false)
		}
	}
	for len(w.msgs) > 0 {
		m := w.msgs[0]
		w.msgs = w.msgs[1:]
		w.deliver(m)
	}
	for _, a := range w.nodes {
		for _, b := range w.nodes {
			if a != b {
				_ = a.settings.SyncWithPeer(ctxb, stubPeer{id: b.name})
				w.flushReqs()
				synctest.Wait()
			}
		}
	}
	runWorkers := func() {
		for k := 0; k < 500; k++ {
			progress := false
			for _, nd := range w.nodes {
				if nd.waiting != "" {
					nd.release <- struct{}{}
					synctest.Wait()
					progress = true
				}
			}
			if !progress {
				break
			}
		}
	}
	runWorkers()
	time.Sleep(21 * time.Second)
	synctest.Wait()
	runWorkers()
	w.settingsCheck("end")
	for _, nd := range w.nodes {
		nd.check("end")
		// every recorded deletion is carried out once faults stop
		for id := range nd.fromScratch() {
			o := w.byId[id]
			if o == nil {
				continue
			}
			// (a node whose status write failed holds the deletion in memory only until its next start: judged
			// after the final restart below)
			if e, ok := nd.entries()[id]; ok && e.DeletedStatus != headstorage.DeletedStatusDeleted && !nd.hadFault {
				r.Fail("deletion-not-carried-out", "", "%s: the settings log records the deletion of %s but after the deleter ran to completion its status is %d", nd.name, o, e.DeletedStatus)
			}
		}
	}
	// everything queued - through the log, locally, or as a late child - is carried out after one more restart
	for _, nd := range w.nodes {
		nd.check("before final restart")
		nd.stop()
		nd.start(false)
		nd.final = true
	}
	runWorkers()
	time.Sleep(21 * time.Second)
	synctest.Wait()
	runWorkers()
	for _, nd := range w.nodes {
		nd.check("after final restart")
		for _, o := range w.objs {
			if nd.tomb[o.id] == headstorage.DeletedStatusQueued {
				r.Fail("queued-deletion-never-carried-out", "", "%s: %s is queued for deletion, the node was restarted and its delete worker ran to completion, but the object is still only queued", nd.name, o)
			}
		}
	}
	nf := 0
	for _, v := range r.Faults {
		nf += v
	}
	r.Nontriv = r.Probes["deletion-recorded"] > 0 && (nf > 0 || faultFree)
	r.State(core.Mix(0, fmt.Sprint(len(w.objs)), fmt.Sprint(r.Probes["deletion-recorded"])))
}

type stubPeer struct {
	peer.Peer
	id string
}

func (s stubPeer) Id() string { return s.id }

func min1(x int) int {
	if x > 0 {
		return 1
	}
	return 0
}
