package tasksim

// C19 — outbound messaging is bounded and isolated: a stuck peer blocks nobody.
// Real code: net/streampool (pool, stream, exec pool) and the mb queues, with simhook yields.
// Harness-owned: drpc.Stream (healthy / failing at the k-th write / blocked forever / closed by the
// remote), peer.Peer, StreamHandler (OpenStream outcome and latency, incoming messages that change
// tags), the callers.

import (
	"context"
	"errors"
	"fmt"
	"sort"
	"strings"
	"sync/atomic"
	"time"

	"storj.io/drpc"

	"github.com/anyproto/any-sync/app"
	"github.com/anyproto/any-sync/net/peer"
	"github.com/anyproto/any-sync/net/streampool"
	"github.com/anyproto/any-sync/util/simhook"

	"verif/sim/core"
)

func init() { props["C19"] = runC19 }

// spMsg is the message type; every copy made by stream.write is stamped with a global offer number.
type spMsg struct {
	h      *spHarness
	id     int
	offer  int    // 0 for the original
	peerId string // target peer of this copy
	in     string // for incoming messages: command for the handler
}

func (m *spMsg) SetPeerId(p string) {
	m.peerId = p
	if m.h.copies != nil {
		m.h.copies[m.id] = append(m.h.copies[m.id], p)
	}
}
func (m *spMsg) Copy() drpc.Message {
	m.h.offers++
	return &spMsg{h: m.h, id: m.id, offer: m.h.offers}
}

type spStream struct {
	h        *spHarness
	n        int
	peerId   string
	ctx      context.Context
	cancel   context.CancelFunc
	queue    int
	tags     []string
	deliv    [][2]int // per delivered copy: its offer number, and the number of offers made so far when it was written
	blocked  bool     // MsgSend never returns
	failAt   int      // the k-th MsgSend returns an error (0 = never)
	sends    int
	lastOff  int
	closed   bool
	inSend   bool
	poolId   uint32
	incoming []string // commands the remote will send
	eof      bool     // the remote closes after its incoming messages
	sent     []int
}

func (s *spStream) name() string { return fmt.Sprintf("s%d", s.n) }

func (s *spStream) Context() context.Context { return s.ctx }
func (s *spStream) CloseSend() error         { return nil }
func (s *spStream) Close() error {
	s.closed = true
	s.h.r.Event("stream-close", "%s (peer %s)", s.name(), s.peerId)
	return nil
}

var errSendFail = errors.New("write failed")
var errEOF = errors.New("remote closed")

func (s *spStream) MsgSend(msg drpc.Message, _ drpc.Encoding) error {
	h := s.h
	h.s.Adopt("wr-" + s.name())
	// a write that was already dequeued may reach a stream the pool has just closed: benign, it fails
	m := msg.(*spMsg)
	s.inSend = true
	if s.blocked {
		h.s.Park("blocked:" + s.name()) // never granted before teardown
		s.inSend = false
		return errSendFail
	}
	h.s.Park("send:" + s.name())
	s.inSend = false
	s.sends++
	// (goroutines of the code under test: report without unwinding through foreign frames)
	if h.r.Aborted() {
		return errSendFail
	}
	if m.offer == 0 {
		h.r.FailNoPanic("uncopied-message", "", "%s: the original message object (not a per-stream copy) reached MsgSend", s.name())
		return errSendFail
	}
	if m.peerId != s.peerId {
		h.r.FailNoPanic("wrong-peer", "", "%s (peer %s) is asked to send a copy addressed to %s", s.name(), s.peerId, m.peerId)
		return errSendFail
	}
	if m.offer <= s.lastOff {
		h.r.FailNoPanic("order-broken", "", "%s: message m%d (accepted as #%d) is written after #%d: not in acceptance order (or twice)", s.name(), m.id, m.offer, s.lastOff)
		return errSendFail
	}
	s.lastOff = m.offer
	if s.failAt > 0 && s.sends >= s.failAt {
		h.r.Fault("write-error")
		h.r.Event("send-error", "%s m%d", s.name(), m.id)
		return errSendFail
	}
	s.sent = append(s.sent, m.id)
	s.deliv = append(s.deliv, [2]int{m.offer, h.offers})
	h.delivered[s.n]++
	h.r.Event("send", "%s m%d", s.name(), m.id)
	return nil
}

func (s *spStream) MsgRecv(msg drpc.Message, _ drpc.Encoding) error {
	h := s.h
	h.s.Adopt("rd-" + s.name())
	h.s.Park("recv:" + s.name())
	if len(s.incoming) > 0 && !h.teardown {
		cmd := s.incoming[0]
		s.incoming = s.incoming[1:]
		msg.(*spMsg).in = cmd
		msg.(*spMsg).h = h
		h.r.Event("recv", "%s <- %q", s.name(), cmd)
		return nil
	}
	h.r.Event("recv-eof", "%s", s.name())
	h.r.Fault("remote-close")
	return errEOF
}

type spPeer struct {
	peer.Peer
	id  string
	ctx context.Context
}

func (p *spPeer) Id() string               { return p.id }
func (p *spPeer) Context() context.Context { return p.ctx }

type spHarness struct {
	r             *core.Run
	s             *core.Sched
	pool          streampool.StreamPool
	streams       []*spStream
	offers        int
	copies        map[int][]string // message id -> peers a copy was addressed to
	delivered     map[int]int
	teardown      bool
	openN         int
	maxQueue      int
	tags          []string
	peers         []string
	removed       map[uint32]bool
	defaultQueues bool
	hung          map[string]bool // peers whose stream opening never completes
	sendsAccepted atomic.Int64    // Send calls that returned nil
	getterCalls   atomic.Int64    // dial jobs that started (the peer getter is a job's first step)
	sendN         int
}

func (h *spHarness) Init(a *app.App) error        { return nil }
func (h *spHarness) Name() string                 { return "sim.streamhandler" }
func (h *spHarness) NewReadMessage() drpc.Message { return &spMsg{h: h} }

func (h *spHarness) newStream(peerId string) *spStream {
	s := h.r.Src
	st := &spStream{h: h, n: len(h.streams) + 1, peerId: peerId}
	st.ctx, st.cancel = context.WithCancel(peer.CtxWithPeerId(context.Background(), peerId))
	st.queue = 1 + s.Choose("queue", h.maxQueue)
	if h.defaultQueues && s.Flip("default-queue", 0.3) {
		st.queue = 0 // the pool's default bound applies
	}
	for _, t := range h.tags {
		if s.Flip("tag", 0.4) {
			st.tags = append(st.tags, t)
		}
	}
	switch s.Weighted("stream-kind", []int{6, 2, 2}) {
	case 1:
		st.blocked = true
		h.r.Fault("blocked-stream")
	case 2:
		st.failAt = 1 + s.Choose("fail-at", 4)
	}
	nin := s.Choose("incoming", 3)
	for i := 0; i < nin; i++ {
		t := h.tags[s.Choose("in-tag", len(h.tags))]
		st.incoming = append(st.incoming, []string{"+", "-"}[s.Choose("in-op", 2)]+t)
	}
	st.eof = s.Flip("eof", 0.3)
	h.streams = append(h.streams, st)
	return st
}

func (h *spHarness) OpenStream(ctx context.Context, p peer.Peer) (drpc.Stream, []string, int, error) {
	h.openN++
	h.s.Adopt(fmt.Sprintf("open-%s-%d", p.Id(), h.openN))
	if h.hung[p.Id()] {
		h.s.Park("blocked:open:" + p.Id()) // never granted before teardown: the dial hangs
		return nil, nil, 0, errors.New("dial failed")
	}
	h.s.Park("open:" + p.Id())
	if h.r.Src.Flip("open-fails", 0.25) {
		h.r.Fault("open-error")
		h.r.Event("open-error", "%s", p.Id())
		return nil, nil, 0, errors.New("dial failed")
	}
	st := h.newStream(p.Id())
	h.r.Event("open", "%s -> %s queue=%d tags=%v blocked=%v failAt=%d", p.Id(), st.name(), st.queue, st.tags, st.blocked, st.failAt)
	return st, append([]string{}, st.tags...), st.queue, nil
}

// HandleMessage: incoming messages change the tags of the stream that delivered them.
func (h *spHarness) HandleMessage(ctx context.Context, peerId string, msg drpc.Message) error {
	cmd := msg.(*spMsg).in
	if len(cmd) < 2 {
		return nil
	}
	var err error
	if cmd[0] == '+' {
		err = h.pool.AddTagsCtx(ctx, cmd[1:])
	} else {
		err = h.pool.RemoveTagsCtx(ctx, cmd[1:])
	}
	h.r.Event("handle", "peer %s %s -> %v", peerId, cmd, err)
	return nil
}

func (h *spHarness) state() streampool.VerifPoolState {
	return h.pool.(interface {
		VerifState() streampool.VerifPoolState
	}).VerifState()
}

// invariants on the pool's bookkeeping, evaluated at quiescence after every grant.
func (h *spHarness) checkPool(when string) {
	st := h.state()
	ids := map[uint32]bool{}
	for _, id := range st.Streams {
		ids[id] = true
	}
	for peerId, l := range st.ByPeer {
		seen := map[uint32]bool{}
		for _, id := range l {
			if !ids[id] {
				h.r.Fail("index-names-dead-stream", "by-peer", "(%s) streamIdsByPeer[%s] names stream %d which is not in the pool", when, peerId, id)
			}
			if seen[id] {
				h.r.Fail("index-duplicate", "by-peer", "(%s) stream %d twice under peer %s", when, id, peerId)
			}
			seen[id] = true
		}
	}
	for tag, l := range st.ByTag {
		seen := map[uint32]bool{}
		for _, id := range l {
			if !ids[id] {
				h.r.Fail("index-names-dead-stream", "by-tag", "(%s) streamIdsByTag[%s] names stream %d which is not in the pool", when, tag, id)
			}
			if seen[id] {
				h.r.Fail("index-duplicate", "by-tag", "(%s) stream %d twice under tag %s", when, id, tag)
			}
			seen[id] = true
			if !contains(st.Tags[id], tag) {
				h.r.Fail("tag-index-mismatch", "index-only", "(%s) stream %d is indexed under tag %s but does not carry it (%v)", when, id, tag, st.Tags[id])
			}
		}
	}
	for id, tags := range st.Tags {
		for _, t := range tags {
			found := false
			for _, x := range st.ByTag[t] {
				if x == id {
					found = true
				}
			}
			if !found {
				h.r.Fail("tag-index-mismatch", "stream-only", "(%s) stream %d carries tag %s but is not indexed under it", when, id, t)
			}
		}
	}
	// bounded buffers
	for _, s := range h.streams {
		if s.poolId == 0 {
			continue
		}
		if n, ok := st.QueueLen[s.poolId]; ok && s.queue == 0 {
			if n >= burstSize {
				h.r.Fail("queue-over-limit", "default-unbounded", "(%s) %s (default queue size) buffers all %d messages of a burst: the buffer is not bounded", when, s.name(), n)
			}
		} else if ok && n > s.queue {
			h.r.Fail("queue-over-limit", "", "(%s) %s buffers %d messages, its configured queue size is %d", when, s.name(), n, s.queue)
		}
	}
	// a closed stream is gone from every index
	for _, s := range h.streams {
		if s.closed && s.poolId != 0 && h.removed[s.poolId] && ids[s.poolId] {
			h.r.Fail("closed-stream-still-indexed", "", "(%s) %s was removed but is still in the pool", when, s.name())
		}
	}
}

const burstSize = 300

func contains(l []string, x string) bool {
	for _, y := range l {
		if y == x {
			return true
		}
	}
	return false
}

func runC19(r *core.Run) {
	s := r.Src
	sch := core.NewSched(r)
	h := &spHarness{r: r, s: sch, delivered: map[int]int{}, copies: map[int][]string{}}
	simhook.YieldFn = func(p string) { sch.Park(p) }
	defer func() { simhook.YieldFn = nil }()
	h.maxQueue = 1 + s.Choose("maxqueue", 4)
	h.tags = []string{"ta", "tb", "tc"}[:1+s.Choose("ntags", 3)]
	npeers := 2 + s.Choose("npeers", 3)
	for i := 0; i < npeers; i++ {
		h.peers = append(h.peers, fmt.Sprintf("P%d", i))
	}
	h.defaultQueues = s.Flip("default-queues", 0.3)
	h.hung = map[string]bool{}
	if s.Flip("hung-opening", 0.25) {
		h.hung[h.peers[s.Choose("hung-peer", len(h.peers))]] = true
		r.Fault("hung-dial")
	}
	sendQ := 10
	if h.defaultQueues && s.Flip("zero-config-queue", 0.5) {
		sendQ = 0
	}
	cfg := streampool.StreamConfig{SendQueueSize: sendQ, DialQueueWorkers: 1 + s.Choose("workers", 3), DialQueueSize: 1 + s.Choose("dialq", 4)}
	removedIds := map[uint32]bool{}
	h.removed = removedIds
	h.pool = streampool.NewStreamPool(h, cfg, streampool.WithStreamCloseHook(func(id uint32, peerId string, tags []string) {
		removedIds[id] = true
		// the hook is documented to run outside the pool lock: a slow hook (or one that calls back into
		// the pool) must not stall sends to other peers. Only one goroutine runs at a time here and parked
		// goroutines hold no lock, so a busy lock is held by the caller of this hook.
		if !h.pool.(interface{ VerifPoolLockFree() bool }).VerifPoolLockFree() {
			r.FailNoPanic("close-hook-under-pool-lock", "", "the stream close hook for stream %d (peer %s) runs while the pool lock is held: the end of one peer's stream stalls every Send/Broadcast until the hook returns", id, peerId)
			return
		}
		_ = h.pool.Streams(tags...) // re-entrant use of the pool from the hook
	}))
	sch.Off.Store(true)
	must(h.pool.Run(context.Background()))
	sch.Off.Store(false)
	r.SetCfg("peers", npeers)
	r.SetCfg("max_queue", h.maxQueue)
	r.SetCfg("dial", fmt.Sprintf("workers=%d queue=%d", cfg.DialQueueWorkers, cfg.DialQueueSize))
	ntasks := 2 + s.Choose("ntasks", 3)
	opsPer := 2 + s.Choose("opsper", 6)
	msgId := 0
	callers := map[string]bool{}
	inCall := map[string]string{}
	for t := 0; t < ntasks; t++ {
		name := fmt.Sprintf("T%d", t)
		callers[name] = true
		type op struct {
			kind  int
			peers []string
			tags  []string
		}
		var ops []op
		for k := 0; k < opsPer; k++ {
			wBurst := 0
			if h.defaultQueues {
				wBurst = 2
			}
			o := op{kind: s.Weighted("op", []int{4, 4, 5, 3, 1, wBurst, 2})}
			for _, p := range h.peers {
				if s.Flip("op-peer", 0.4) {
					o.peers = append(o.peers, p)
				}
			}
			if len(o.peers) == 0 {
				o.peers = []string{h.peers[s.Choose("op-peer1", len(h.peers))]}
			}
			for _, tg := range h.tags {
				if s.Flip("op-tag", 0.5) {
					o.tags = append(o.tags, tg)
				}
			}
			if len(o.tags) == 0 {
				o.tags = []string{h.tags[0]}
			}
			ops = append(ops, o)
		}
		sch.Go(name, func() {
			for k, o := range ops {
				if r.Aborted() {
					return
				}
				msgId++
				m := &spMsg{h: h, id: msgId}
				call := fmt.Sprintf("%s.%d", name, k)
				var err error
				switch o.kind {
				case 0: // Send: async through the dial pool
					peers := o.peers
					jobName := fmt.Sprintf("job-m%d", m.id)
					inCall[name] = "Send"
					sctx := context.Background()
					if len(h.hung) > 0 {
						// senders bring their own deadline (fake clock); deadlines differ by a millisecond so that
						// timers of one instant do not wake several goroutines at once
						h.sendN++
						var cancel context.CancelFunc
						sctx, cancel = context.WithTimeout(sctx, 5*time.Second+time.Duration(h.sendN)*time.Millisecond)
						_ = cancel
					}
					err = h.pool.Send(sctx, m, func(ctx context.Context) ([]peer.Peer, error) {
						h.getterCalls.Add(1)
						sch.Adopt(jobName)
						sch.Park("getpeers")
						if r.Src.Flip("getpeers-fails", 0.15) {
							r.Fault("peer-getter-error")
							return nil, errors.New("no peers")
						}
						var ps []peer.Peer
						for _, id := range peers {
							ps = append(ps, &spPeer{id: id, ctx: context.Background()})
						}
						return ps, nil
					})
					if err == nil {
						h.sendsAccepted.Add(1)
					}
					r.Event("call-send", "%s m%d -> %v: %v", call, m.id, peers, err)
				case 1:
					inCall[name] = "SendById"
					err = h.pool.SendById(context.Background(), m, o.peers...)
					r.Event("call-sendbyid", "%s m%d -> %v: %v", call, m.id, o.peers, err)
				case 2:
					inCall[name] = "Broadcast"
					before := h.state()
					err = h.pool.Broadcast(context.Background(), m, o.tags...)
					r.Event("call-broadcast", "%s m%d tags %v: %v", call, m.id, o.tags, err)
					if err != nil {
						// one stream's trouble (it is ending, its queue is closed) reached the caller: then at least the
						// fan-out must have gone on - every stream that carried one of the tags before and after the
						// call must have been offered its copy
						after := h.state()
						for _, tag := range o.tags {
							for _, id := range before.ByTag[tag] {
								still := false
								for _, id2 := range after.ByTag[tag] {
									still = still || id2 == id
								}
								x, _ := after.Objs[id].(*spStream)
								if !still || x == nil || x.closed {
									continue
								}
								got := false
								for _, p := range h.copies[m.id] {
									got = got || p == x.peerId
								}
								if !got {
									r.Fail("fanout-aborted", "", "Broadcast of m%d to tags %v returned %v and never offered the message to %s (peer %s), which carried tag %s before and after the call: one ending stream stopped delivery to the others", m.id, o.tags, err, x.name(), x.peerId, tag)
								}
							}
						}
					}
				case 3: // an incoming/outgoing stream is handed to the pool by the application
					st := h.newStream(o.peers[0])
					inCall[name] = "AddStream"
					err = h.pool.AddStream(st, st.queue, st.tags...)
					r.Event("call-addstream", "%s %s peer=%s queue=%d tags=%v blocked=%v failAt=%d: %v", call, st.name(), st.peerId, st.queue, st.tags, st.blocked, st.failAt, err)
				case 6: // an incoming stream served by the pool (the rpc handler blocks in ReadStream for its lifetime)
					st := h.newStream(o.peers[0])
					rsName := fmt.Sprintf("serve-%s", st.name())
					r.Event("call-readstream", "%s %s peer=%s queue=%d tags=%v blocked=%v failAt=%d", call, st.name(), st.peerId, st.queue, st.tags, st.blocked, st.failAt)
					sch.Go(rsName, func() { _ = h.pool.ReadStream(st, st.queue, st.tags...) })
				case 5: // a burst at every tagged stream (a stuck peer's buffer must stay bounded)
					inCall[name] = "Broadcast"
					for b := 0; b < burstSize; b++ {
						err = h.pool.Broadcast(context.Background(), &spMsg{h: h, id: 100000 + m.id*1000 + b}, h.tags...)
					}
					r.Event("call-burst", "%s %d broadcasts to tags %v", call, burstSize, h.tags)
				case 4: // remove tags out of band
					st := h.state()
					if len(st.Streams) > 0 {
						id := st.Streams[r.Src.Choose("rm-tags-stream", len(st.Streams))]
						err = h.pool.RemoveTagsById(id, o.tags...)
						r.Event("call-removetags", "%s stream %d tags %v: %v", call, id, o.tags, err)
					}
				}
				delete(inCall, name)
				sch.Park("between-ops")
			}
		})
	}
	// learn the pool's id of each harness stream
	mapIds := func() {
		st := h.state()
		for id, obj := range st.Objs {
			if x, ok := obj.(*spStream); ok {
				x.poolId = id
			}
		}
	}
	step := func(names []string) {
		var cand []string
		for _, n := range names {
			if pt, _ := sch.ParkedPoint(n); strings.HasPrefix(pt, "blocked:") {
				continue // a stuck peer: its write never returns
			}
			cand = append(cand, n)
		}
		if len(cand) == 0 {
			return
		}
		sch.Grant(cand[s.Choose("sched", len(cand))])
		mapIds()
		// no caller may be stuck inside the pool: after quiescence every caller is parked at a scheduler
		// point or finished
		parked := map[string]bool{}
		for _, n := range sch.Parked() {
			parked[n] = true
		}
		for c := range callers {
			if what, in := inCall[c]; in && !parked[c] {
				r.Fail("caller-blocked", what, "%s is blocked inside %s with nothing left to schedule for it (a slow or stuck peer must never block the caller)", c, what)
			}
		}
		h.checkPool("after grant")
	}
	runnable := func() []string {
		var out []string
		for _, n := range sch.Parked() {
			if pt, _ := sch.ParkedPoint(n); !strings.HasPrefix(pt, "blocked:") {
				out = append(out, n)
			}
		}
		return out
	}
	for n := 0; n < 200000 && !r.Aborted(); n++ {
		names := runnable()
		if len(names) == 0 {
			break
		}
		// readers with nothing to deliver stay parked until teardown unless the remote closes
		var act []string
		for _, nm := range names {
			if pt, _ := sch.ParkedPoint(nm); strings.HasPrefix(pt, "recv:") {
				st := h.streamByName(pt[5:])
				if st != nil && len(st.incoming) == 0 && !st.eof {
					continue
				}
			}
			act = append(act, nm)
		}
		if len(act) == 0 {
			break
		}
		step(act)
	}
	if r.Aborted() {
		sch.ReleaseAll()
		return
	}
	if len(h.hung) > 0 {
		// every sender's deadline passes while the dial to one peer still hangs: workers waiting for that opening
		// must come back and serve the jobs queued behind them
		sch.Off.Store(false)
		time.Sleep(7 * time.Second)
		for n := 0; n < 200000 && !r.Aborted(); n++ {
			var act []string
			for _, nm := range runnable() {
				if pt, _ := sch.ParkedPoint(nm); strings.HasPrefix(pt, "recv:") {
					continue
				}
				act = append(act, nm)
			}
			if len(act) == 0 {
				break
			}
			step(act)
		}
		if a, g := h.sendsAccepted.Load(), h.getterCalls.Load(); a != g && !r.Aborted() {
			r.Fail("dial-workers-stuck", "", "%d sends were accepted but only %d dial jobs have started although every sender's deadline has passed: workers are still waiting for the hung opening to %v, sends to other peers queue up behind them", a, g, core.SortedKeys(h.hung))
		}
		r.Probe("hung-dial-deadlines-passed")
	}
	// faults stop: every healthy stream drains what it accepted (a blocked peer delays nobody)
	for n := 0; n < 200000 && !r.Aborted(); n++ {
		var act []string
		for _, nm := range runnable() {
			if pt, _ := sch.ParkedPoint(nm); strings.HasPrefix(pt, "recv:") {
				continue
			}
			act = append(act, nm)
		}
		if len(act) == 0 {
			break
		}
		step(act)
	}
	// bounded buffers, seen from outside: while copy i is being written, the copies accepted before that moment and
	// written later all sat in the stream's queue, so there are at most queue-size of them
	for _, x := range h.streams {
		if x.queue <= 0 {
			continue
		}
		for i, d := range x.deliv {
			waiting := 0
			for _, e := range x.deliv[i+1:] {
				if e[0] <= d[1] {
					waiting++
				}
			}
			if waiting > x.queue {
				r.Fail("queue-over-limit", "held-outside-queue", "%s (queue size %d): while one message was being written, %d accepted messages were waiting behind it and were all delivered later: more than the queue holds", x.name(), x.queue, waiting)
			}
		}
	}
	st := h.state()
	for _, x := range h.streams {
		if x.poolId == 0 || x.blocked || x.closed {
			continue
		}
		if n := st.QueueLen[x.poolId]; n != 0 {
			r.Fail("healthy-stream-not-drained", "", "%s (healthy, peer %s) still buffers %d accepted messages after everything runnable ran: delivery to it is being delayed", x.name(), x.peerId, n)
		}
	}
	// teardown: remotes close, blocked writes fail; every index must end up empty
	h.teardown = true
	for n := 0; n < 200000 && !r.Aborted(); n++ {
		names := sch.Parked()
		if len(names) == 0 {
			break
		}
		sch.Grant(names[s.Choose("sched", len(names))])
		mapIds()
		h.checkPool("teardown")
	}
	if r.Aborted() {
		sch.ReleaseAll()
		return
	}
	st = h.state()
	if len(st.Streams) != 0 || len(st.ByPeer) != 0 || len(st.ByTag) != 0 {
		r.Fail("state-leak", "", "after every stream ended the pool still holds streams=%v byPeer=%v byTag=%v", st.Streams, st.ByPeer, st.ByTag)
	}
	sch.Off.Store(true)
	_ = h.pool.Close(context.Background())
	time.Sleep(time.Second)
	total := 0
	for _, v := range h.delivered {
		total += v
	}
	r.SetCfg("streams", len(h.streams))
	r.Nontriv = len(h.streams) >= 2 && total >= 1
	r.State(core.Mix(0, fmt.Sprint(len(h.streams)), fmt.Sprint(sortedCounts(h.delivered))))
}

func sortedCounts(m map[int]int) []int {
	var l []int
	for _, v := range m {
		l = append(l, v)
	}
	sort.Ints(l)
	return l
}

func (h *spHarness) streamByName(n string) *spStream {
	for _, s := range h.streams {
		if s.name() == n {
			return s
		}
	}
	return nil
}

func must(err error) {
	if err != nil {
		panic(err)
	}
}
