// Package tasksim: goroutine engines driven by the seeded task scheduler (core.Sched) inside a
// synctest bubble: ocache (C16), streampool (C19), pubsub (C17), handshake (C14).
package tasksim

import (
	"testing"

	"verif/sim/core"
)

var props = map[string]core.PropFn{}

func TestSim(t *testing.T) {
	core.QuietLogs()
	core.Main(t, "tasksim", props)
}
