package tasksim

// C14 — handshake: mutual version gating, proven identity, same verdict on both sides.
// Real code: net/secureservice (HandshakeInbound/Outbound, both credential checkers), handshake
// (credential exchange, framing, pooled handshake objects), net/peer context helpers.
// Harness-owned: the byte pipe between the two ends (the scheduler decides every chunk boundary,
// truncation, garbage, oversized and out-of-order frames, frames replayed from another connection),
// deadlines on the fake clock, account service / node configuration / config components.
// libp2p TLS is not part of the simulation: the handshake API takes any io.ReadWriteCloser and the
// transport peer id TLS would have authenticated.

import (
	"context"
	"encoding/binary"
	"fmt"
	"io"
	"strings"
	"time"

	"github.com/anyproto/any-sync/accountservice"
	"github.com/anyproto/any-sync/app"
	"github.com/anyproto/any-sync/commonspace/object/accountdata"
	"github.com/anyproto/any-sync/net/peer"
	"github.com/anyproto/any-sync/net/secureservice"
	"github.com/anyproto/any-sync/nodeconf"

	"verif/sim/core"
)

func init() { props["C14"] = runC14 }

type hsAccount struct{ keys *accountdata.AccountKeys }

func (a *hsAccount) Init(*app.App) error               { return nil }
func (a *hsAccount) Name() string                      { return accountservice.CName }
func (a *hsAccount) Account() *accountdata.AccountKeys { return a.keys }

type hsNodeConf struct {
	nodeconf.Service
	nodes map[string]bool
}

func (n *hsNodeConf) Init(*app.App) error { return nil }
func (n *hsNodeConf) Name() string        { return nodeconf.CName }
func (n *hsNodeConf) NodeTypes(peerId string) []nodeconf.NodeType {
	if n.nodes[peerId] {
		return []nodeconf.NodeType{nodeconf.NodeTypeTree}
	}
	return nil
}

type hsConfig struct{ c secureservice.Config }

func (c *hsConfig) Init(*app.App) error                    { return nil }
func (c *hsConfig) Name() string                           { return "config" }
func (c *hsConfig) GetSecureService() secureservice.Config { return c.c }

// endpoint is one secure service with its configuration.
type hsEnd struct {
	name    string
	keys    *accountdata.AccountKeys
	svc     secureservice.SecureService
	version uint32
	accept  []uint32
	reqAuth bool
	isNode  bool
	// refusedBuild: the end announces a client build the code refuses to talk to (a hotfix in both credential
	// checkers); such a handshake may be refused although versions and identities are fine, but both ends must
	// still agree on the verdict
	refusedBuild bool
}

func newEnd(name string, version uint32, accept []uint32, reqAuth bool, nodes map[string]bool, isNode bool) *hsEnd {
	keys, err := accountdata.NewRandom()
	must(err)
	e := &hsEnd{name: name, keys: keys, version: version, accept: accept, reqAuth: reqAuth, isNode: isNode}
	if isNode {
		nodes[keys.PeerId] = true
	}
	return e
}

func (e *hsEnd) start(nodes map[string]bool) {
	a := new(app.App)
	a.SetVersionName("sim:" + e.name)
	if e.refusedBuild {
		a.SetVersionName("middle:v0.36.6")
	}
	a.Register(&hsAccount{e.keys}).Register(&hsNodeConf{nodes: nodes}).Register(&hsConfig{secureservice.Config{RequireClientAuth: e.reqAuth, CompatibleVersions: e.accept}})
	old := secureservice.ProtoVersion
	secureservice.ProtoVersion = e.version
	e.svc = secureservice.New()
	must(e.svc.Init(a))
	secureservice.ProtoVersion = old
}

// segment of a byte stream: authentic frame k of this connection, or injected bytes
type hsSeg struct {
	data      []byte
	authentic int // index of the authentic frame (1-based), 0 = injected
	full      int // length of the frame when it was written (a frame whose data is shorter has been partly read)
}

// hsPipeDir is one direction of the pipe.
type hsPipeDir struct {
	segs     []hsSeg // in flight, in delivery order
	consumed []int   // per delivered byte run: authentic frame index or 0
	closed   bool    // no more data will arrive (writer closed or truncation)
	frames   int     // authentic frames written so far
	held     bool    // delivery stalled (the reader never gets more bytes) until released
}

type hsConn struct {
	h                       *hsHarness
	n                       int
	out                     *hsEnd // dialer
	in                      *hsEnd // listener
	toIn                    *hsPipeDir
	toOut                   *hsPipeDir
	closedByOut, closedByIn bool
	// halfClose: Close on that side ends sending only and does not interrupt a pending Read (a quic stream)
	halfOut, halfIn bool
	// what each side consumed: sequence of authentic frame indexes, 0 for injected bytes
	gotIn, gotOut         []int
	partialIn, partialOut bool // consumed only part of some frame when the stream ended
	resOut, resIn         *hsResult
	bytesIn, bytesOut     []byte   // bytes consumed by listener / dialer
	recorded              [][]byte // authentic frames dialer -> listener (for replay on other connections)
	recordedBack          [][]byte
}

type hsResult struct {
	err error
	ctx context.Context
	at  time.Duration
}

// hsSide is the io.ReadWriteCloser one handshake goroutine sees.
type hsSide struct {
	c     *hsConn
	isOut bool
	rbuf  []byte
}

func (s *hsSide) tag() string {
	if s.isOut {
		return fmt.Sprintf("out%d", s.c.n)
	}
	return fmt.Sprintf("in%d", s.c.n)
}

func (s *hsSide) Write(p []byte) (int, error) {
	c := s.c
	c.h.s.Adopt("hs-" + s.tag())
	c.h.s.Park("write:" + s.tag())
	if (s.isOut && c.closedByOut) || (!s.isOut && c.closedByIn) {
		return 0, io.ErrClosedPipe
	}
	dir := c.toIn
	if !s.isOut {
		dir = c.toOut
	}
	if dir.closed {
		return 0, io.ErrClosedPipe
	}
	// one Write call = one authentic frame (header + body are written together by writeData)
	dir.frames++
	data := append([]byte{}, p...)
	dir.segs = append(dir.segs, hsSeg{data: data, authentic: dir.frames, full: len(data)})
	if s.isOut {
		c.recorded = append(c.recorded, data)
	} else {
		c.recordedBack = append(c.recordedBack, data)
	}
	c.h.r.Event("write", "%s frame %d type=%d len=%d", s.tag(), dir.frames, p[0], len(p))
	return len(p), nil
}

func (s *hsSide) Read(p []byte) (int, error) {
	c := s.c
	c.h.s.Adopt("hs-" + s.tag())
	dir := c.toOut
	if !s.isOut {
		dir = c.toIn
	}
	for {
		if c.h.over {
			return 0, io.ErrClosedPipe
		}
		if (s.isOut && c.closedByOut && !c.halfOut) || (!s.isOut && c.closedByIn && !c.halfIn) {
			return 0, io.ErrClosedPipe
		}
		if len(dir.segs) > 0 && !dir.held {
			c.h.s.Park("read:" + s.tag())
			if len(dir.segs) == 0 || dir.held {
				continue
			}
			seg := &dir.segs[0]
			n := len(seg.data)
			if n > len(p) {
				n = len(p)
			}
			// chunking: the scheduler decides how many bytes arrive
			if n > 1 && c.h.chunky {
				n = 1 + c.h.r.Src.Choose("chunk", n)
			}
			copy(p, seg.data[:n])
			if s.isOut {
				c.gotOut = appendRun(c.gotOut, seg.authentic)
				c.bytesOut = append(c.bytesOut, seg.data[:n]...)
			} else {
				c.gotIn = appendRun(c.gotIn, seg.authentic)
				c.bytesIn = append(c.bytesIn, seg.data[:n]...)
			}
			seg.data = seg.data[n:]
			if len(seg.data) == 0 {
				dir.segs = dir.segs[1:]
			}
			return n, nil
		}
		if dir.closed && len(dir.segs) == 0 {
			return 0, io.EOF
		}
		// nothing to read: wait (only a write, a close, a fault or a deadline can change that)
		c.h.s.Park("wait:" + s.tag())
	}
}

func appendRun(l []int, a int) []int {
	if len(l) > 0 && l[len(l)-1] == a {
		return l
	}
	return append(l, a)
}

func (s *hsSide) Close() error {
	c := s.c
	if s.isOut {
		c.closedByOut = true
		c.toIn.closed = true
	} else {
		c.closedByIn = true
		c.toOut.closed = true
	}
	if !c.h.over { // (goroutines released together at the end of the run close in any order)
		c.h.r.Event("close", "%s", s.tag())
	}
	return nil
}

type hsHarness struct {
	r      *core.Run
	s      *core.Sched
	chunky bool
	conns  []*hsConn
	over   bool // the run is over: every pending read ends
}

// expected verdict of a fault-free handshake, from the configuration alone
func hsExpect(out, in *hsEnd, allowCheck bool) (ok bool, signOut, signIn bool) {
	inSet := func(v uint32, l []uint32) bool {
		for _, x := range l {
			if x == v {
				return true
			}
		}
		return false
	}
	versions := inSet(out.version, in.accept) && inSet(in.version, out.accept)
	signOut = allowCheck || in.isNode // the dialer proves and demands identity when the remote is a node or the caller asks for it
	signIn = in.reqAuth || in.isNode  // the listener proves and demands identity when configured or when it is a node
	ok = versions
	if signIn && !signOut {
		ok = false // listener demands a signature, dialer sends skip-verify credentials
	}
	if signOut && !signIn {
		ok = false // dialer demands a signature, listener sends skip-verify credentials
	}
	return
}

func runC14(r *core.Run) {
	s := r.Src
	sch := core.NewSched(r)
	h := &hsHarness{r: r, s: sch, chunky: s.Flip("chunky", 0.6)}
	// 0 = a peer that predates the version field (proto3 does not put a zero on the wire)
	versions := []uint32{11, 12, 13, 14, 0}
	pickAccept := func(own uint32) []uint32 {
		l := []uint32{own}
		for _, v := range versions {
			if v != own && s.Flip("accept", 0.5) {
				l = append(l, v)
			}
		}
		return l
	}
	nodes := map[string]bool{}
	var ends []*hsEnd
	nEnds := 2 + s.Choose("nends", 2)
	for i := 0; i < nEnds; i++ {
		v := versions[s.Weighted("version", []int{3, 3, 3, 3, 2})]
		e := newEnd(fmt.Sprintf("E%d", i), v, pickAccept(v), s.Flip("reqauth", 0.3), nodes, s.Flip("isnode", 0.35))
		e.refusedBuild = s.Flip("refused-build", 0.08)
		ends = append(ends, e)
	}
	sch.Off.Store(true)
	for _, e := range ends {
		e.start(nodes)
	}
	sch.Off.Store(false)
	faultFree := s.Flip("faultfree", 0.35)
	nconns := 1 + s.Choose("nconns", 3)
	deadline := 30 * time.Second
	start := time.Now()
	type plan struct {
		c          *hsConn
		allowCheck bool
	}
	var plans []plan
	for i := 0; i < nconns; i++ {
		oi := s.Choose("dialer", len(ends))
		ii := s.Choose("listener", len(ends)-1)
		if ii >= oi {
			ii++
		}
		c := &hsConn{h: h, n: i, out: ends[oi], in: ends[ii], toIn: &hsPipeDir{}, toOut: &hsPipeDir{}}
		c.halfOut, c.halfIn = s.Flip("half-close-dialer", 0.2), s.Flip("half-close-listener", 0.2)
		h.conns = append(h.conns, c)
		p := plan{c: c, allowCheck: s.Flip("allowcheck", 0.4)}
		plans = append(plans, p)
		r.Event("connect", "conn%d %s(v%d accepts %v) -> %s(v%d accepts %v reqAuth=%v node=%v) allowCheck=%v", i, c.out.name, c.out.version, c.out.accept, c.in.name, c.in.version, c.in.accept, c.in.reqAuth, c.in.isNode, p.allowCheck)
		// (deadlines differ by a millisecond per side: goroutines woken by timers of one fake instant would run
		// in parallel, outside the scheduler's order)
		sch.Go(fmt.Sprintf("dial%d", i), func() {
			ctx, cancel := context.WithTimeout(context.Background(), deadline+time.Duration(2*c.n)*time.Millisecond)
			defer cancel()
			if p.allowCheck {
				ctx = secureservice.CtxAllowAccountCheck(ctx)
			}
			cctx, err := c.out.svc.HandshakeOutbound(ctx, &hsSide{c: c, isOut: true}, c.in.keys.PeerId)
			c.resOut = &hsResult{err: err, ctx: cctx, at: time.Since(start)}
			r.Event("result", "conn%d dialer %s: %v", c.n, c.out.name, errStr(err))
		})
		sch.Go(fmt.Sprintf("listen%d", i), func() {
			ctx, cancel := context.WithTimeout(context.Background(), deadline+time.Duration(2*c.n+1)*time.Millisecond)
			defer cancel()
			cctx, err := c.in.svc.HandshakeInbound(ctx, &hsSide{c: c, isOut: false}, c.out.keys.PeerId)
			c.resIn = &hsResult{err: err, ctx: cctx, at: time.Since(start)}
			r.Event("result", "conn%d listener %s: %v", c.n, c.in.name, errStr(err))
		})
	}
	tampered := map[int]bool{}
	injectable := func() []*hsConn {
		var l []*hsConn
		for _, c := range h.conns {
			if c.resIn == nil || c.resOut == nil {
				l = append(l, c)
			}
		}
		return l
	}
	for step := 0; step < 3000 && !r.Aborted(); step++ {
		var cand []string
		for _, n := range sch.Parked() {
			if pt, _ := sch.ParkedPoint(n); strings.HasPrefix(pt, "wait:") {
				continue
			}
			cand = append(cand, n)
		}
		// wake waiters whose direction has data or got closed
		for _, n := range sch.Parked() {
			pt, _ := sch.ParkedPoint(n)
			if !strings.HasPrefix(pt, "wait:") {
				continue
			}
			if h.waiterRunnable(pt[5:]) {
				cand = append(cand, n)
			}
		}
		wFault := 0
		inj := injectable()
		if !faultFree && len(inj) > 0 {
			wFault = 2
		}
		if len(cand) == 0 && wFault == 0 {
			break
		}
		w := make([]int, len(cand)+1)
		for i := range cand {
			w[i] = 10
		}
		w[len(cand)] = wFault
		a := s.Weighted("sched-action", w)
		if a < len(cand) {
			sch.Grant(cand[a])
			continue
		}
		// a network fault on one direction of one unfinished connection
		c := inj[s.Choose("fault-conn", len(inj))]
		dirIn := s.Flip("fault-dir", 0.5)
		dir, dn := c.toOut, "->dialer"
		if dirIn {
			dir, dn = c.toIn, "->listener"
		}
		if dir.closed {
			continue
		}
		tampered[c.n] = true
		switch s.Choose("fault-kind", 6) {
		case 0: // truncation: the stream ends here (possibly in the middle of a frame)
			if len(dir.segs) > 0 && len(dir.segs[0].data) > 1 {
				cut := s.Choose("cut", len(dir.segs[0].data))
				dir.segs[0].data = dir.segs[0].data[:cut]
				dir.segs = dir.segs[:1]
				if cut == 0 {
					dir.segs = nil
				}
			} else {
				dir.segs = nil
			}
			dir.closed = true
			r.Fault("truncate")
			r.Event("fault", "conn%d %s truncated", c.n, dn)
		case 1: // garbage frame
			g := make([]byte, 1+s.Choose("glen", 40))
			for i := range g {
				g[i] = byte(s.Choose("gb", 256))
			}
			dir.segs = append([]hsSeg{{data: g}}, dir.segs...)
			r.Fault("garbage")
			r.Event("fault", "conn%d %s %d garbage bytes injected", c.n, dn, len(g))
		case 2: // oversized frame header
			hd := make([]byte, 5)
			hd[0] = byte(1 + s.Choose("otype", 3))
			binary.LittleEndian.PutUint32(hd[1:], uint32(200*1024+1+s.Choose("osize", 1<<20)))
			dir.segs = append([]hsSeg{{data: hd}}, dir.segs...)
			r.Fault("oversized")
			r.Event("fault", "conn%d %s oversized frame header injected", c.n, dn)
		case 3: // out of order: two frames in flight swap places, or a frame is duplicated
			if len(dir.segs) >= 2 {
				dir.segs[0], dir.segs[1] = dir.segs[1], dir.segs[0]
				r.Event("fault", "conn%d %s frames reordered", c.n, dn)
			} else if len(dir.segs) == 1 && len(dir.segs[0].data) > 0 {
				// a byte-identical copy of an authentic frame is that frame
				dup := hsSeg{data: append([]byte{}, dir.segs[0].data...), authentic: dir.segs[0].authentic}
				dir.segs = append(dir.segs, dup)
				r.Event("fault", "conn%d %s frame duplicated", c.n, dn)
			} else {
				// a frame of a type the reader does not expect next (a well-formed ack arriving exactly where an
				// ack is expected would be a forgery of an unauthenticated frame, which only the transport's
				// integrity protection rules out - not part of this property)
				dir.segs = append([]hsSeg{{data: []byte{3, 2, 0, 0, 0, 8, 1}}}, dir.segs...)
				r.Event("fault", "conn%d %s unexpected proto frame injected", c.n, dn)
			}
			r.Fault("out-of-order")
		case 4: // replay: a credentials frame recorded on a connection with other endpoints
			var src [][]byte
			for _, o := range h.conns {
				if o == c {
					continue
				}
				rec := o.recorded
				sameEnds := o.out == c.out && o.in == c.in
				if !dirIn {
					rec = o.recordedBack
				}
				// (the first frame a side wrote is its credentials unless it refused at once: then it is an ack)
				if len(rec) > 0 && !sameEnds && len(rec[0]) > 5 && rec[0][0] == 1 {
					src = append(src, rec[0])
				}
			}
			if len(src) == 0 {
				continue
			}
			rep := hsSeg{data: append([]byte{}, src[s.Choose("replay-src", len(src))]...), authentic: -1}
			// (only a frame nobody has started to read can be replaced as a whole; splicing foreign bytes into the
			// unread tail of a frame alters the client version string at most, which no signature covers and only the
			// transport's integrity protection guards)
			if len(dir.segs) > 0 && dir.segs[0].authentic == 1 && len(dir.segs[0].data) == dir.segs[0].full && s.Flip("replay-replaces", 0.6) {
				// a man in the middle substitutes the recorded credentials for the sender's own
				dir.segs[0] = rep
				r.Event("fault", "conn%d %s credentials recorded between other endpoints substituted for the sender's", c.n, dn)
			} else {
				dir.segs = append([]hsSeg{rep}, dir.segs...)
				r.Event("fault", "conn%d %s credentials recorded between other endpoints replayed", c.n, dn)
			}
			r.Fault("replay")
		default: // the peer goes silent: nothing more is delivered in this direction
			dir.held = true
			r.Fault("stall")
			r.Event("fault", "conn%d %s stalled forever", c.n, dn)
		}
	}
	if r.Aborted() {
		sch.ReleaseAll()
		return
	}
	// whatever is still waiting can only be ended by its deadline
	time.Sleep(deadline + time.Second)
	for step := 0; step < 2000 && !r.Aborted(); step++ {
		var names []string
		for _, nm := range sch.Parked() {
			// a reader left behind on a half-closed, silent stream waits for ever (the handshake call itself must
			// have returned at its deadline)
			if pt, _ := sch.ParkedPoint(nm); strings.HasPrefix(pt, "wait:") && !h.waiterRunnable(pt[5:]) {
				continue
			}
			names = append(names, nm)
		}
		if len(names) == 0 {
			break
		}
		sch.Grant(names[s.Choose("sched", len(names))])
	}
	defer func() { h.over = true; sch.ReleaseAll() }()
	if r.Aborted() {
		sch.ReleaseAll()
		return
	}
	for i, p := range plans {
		c := p.c
		if c.resOut == nil || c.resIn == nil {
			r.Fail("unbounded-wait", "", "conn%d: a side has not returned although its %v deadline passed (dialer returned: %v, listener returned: %v)", i, deadline, c.resOut != nil, c.resIn != nil)
		}
		if c.resOut.at > deadline+time.Second || c.resIn.at > deadline+time.Second {
			r.Fail("unbounded-wait", "late", "conn%d returned after the deadline (dialer %v, listener %v)", i, c.resOut.at, c.resIn.at)
		}
		ok, signOut, signIn := hsExpect(c.out, c.in, p.allowCheck)
		outOK, inOK := c.resOut.err == nil, c.resIn.err == nil
		replayedToOut := len(c.gotOut) > 0 && c.gotOut[0] == -1
		replayedToIn := len(c.gotIn) > 0 && c.gotIn[0] == -1
		if !tampered[c.n] {
			if outOK != inOK {
				r.Fail("verdicts-differ", "", "conn%d without network faults: dialer %v, listener %v", i, errStr(c.resOut.err), errStr(c.resIn.err))
			}
			if refused := c.out.refusedBuild || c.in.refusedBuild; refused && ok && !outOK {
				r.Probe("refused-build-rejected")
			} else if outOK != ok {
				r.Fail("wrong-verdict", fmt.Sprintf("expected-%v", ok), "conn%d %s(v%d accepts %v) -> %s(v%d accepts %v reqAuth=%v node=%v) allowCheck=%v: handshake result %v/%v, the configuration demands success=%v",
					i, c.out.name, c.out.version, c.out.accept, c.in.name, c.in.version, c.in.accept, c.in.reqAuth, c.in.isNode, p.allowCheck, errStr(c.resOut.err), errStr(c.resIn.err), ok)
			}
			r.Probe(fmt.Sprintf("clean-handshake-%v", ok))
		} else {
			// a side that consumed anything but the authentic frames of this connection, in order and in
			// full, must not report success
			// credentials recorded elsewhere (tag -1) carry no proof for this connection: a side that demands
			// proof must refuse them; a side configured not to verify identities cannot tell them from the
			// sender's own skip-verify credentials and may accept them in the credentials position
			norm := func(got []int, verifies bool) []int {
				out := append([]int{}, got...)
				if !verifies && len(out) > 0 && out[0] == -1 {
					out[0] = 1
				}
				return out
			}
			c.gotOut, c.gotIn = norm(c.gotOut, signOut), norm(c.gotIn, signIn)
			// judged on the bytes: what a successful side consumed must be exactly the two authentic frames
			// the other end wrote to it (injected bytes that happen to equal the authentic ones are the
			// authentic stream); for a side that does not verify identities the first frame may be
			// credentials recorded elsewhere
			authentic := func(frames [][]byte) []byte {
				var b []byte
				for i := 0; i < len(frames) && i < 2; i++ {
					b = append(b, frames[i]...)
				}
				return b
			}
			okBytes := func(got []byte, frames [][]byte, tags []int, verifies bool, replayed bool) bool {
				if len(frames) < 2 {
					return false
				}
				if string(got) == string(authentic(frames)) {
					return true
				}
				if !verifies && replayed && len(tags) == 2 && tags[0] == 1 && tags[1] == 2 && strings.HasSuffix(string(got), string(frames[1])) {
					return true // tags[0] was normalised from -1: replayed skip-verify credentials + the authentic ack
				}
				return false
			}
			if outOK && !okBytes(c.bytesOut, c.recordedBack, c.gotOut, signOut, replayedToOut) {
				r.Fail("success-on-damaged-input", "dialer", "conn%d: the dialer reports success but what it consumed is not the two authentic frames of this connection (segments %v)", i, c.gotOut)
			}
			if inOK && !okBytes(c.bytesIn, c.recorded, c.gotIn, signIn, replayedToIn) {
				r.Fail("success-on-damaged-input", "listener", "conn%d: the listener reports success but what it consumed is not the two authentic frames of this connection (segments %v)", i, c.gotIn)
			}
			// under network faults the two verdicts may differ (an acknowledgement can be provoked by frames
			// injected in the other direction), but each side's own gate still holds: the version the
			// remote announced to it is one it accepts
			inSet := func(v uint32, l []uint32) bool {
				for _, x := range l {
					if x == v {
						return true
					}
				}
				return false
			}
			if outOK && !replayedToOut && !inSet(c.in.version, c.out.accept) {
				r.Fail("wrong-verdict", "dialer-gate", "conn%d: the dialer (accepts %v) reports success with a listener running v%d", i, c.out.accept, c.in.version)
			}
			if inOK && !replayedToIn && !inSet(c.out.version, c.in.accept) {
				r.Fail("wrong-verdict", "listener-gate", "conn%d: the listener (accepts %v) reports success with a dialer running v%d", i, c.in.accept, c.out.version)
			}
			_ = ok
			r.Probe("faulty-handshake")
		}
		// identity and versions attached to the connection
		check := func(side string, res *hsResult, remote *hsEnd, verified bool, replayed bool) {
			if res.err != nil {
				return
			}
			id, _ := peer.CtxIdentity(res.ctx)
			want, _ := remote.keys.SignKey.GetPublic().Marshall()
			if verified && string(id) != string(want) {
				r.Fail("wrong-identity", side, "conn%d %s: identity attached to the connection is not the remote account's", i, side)
			}
			if !verified && len(id) != 0 && string(id) != string(want) {
				r.Fail("wrong-identity", side+"-unverified", "conn%d %s: an identity that is not the remote's is attached without verification", i, side)
			}
			if pid, _ := peer.CtxPeerId(res.ctx); pid != remote.keys.PeerId {
				r.Fail("wrong-identity", side+"-peer", "conn%d %s: peer id in context is %s", i, side, pid)
			}
			if v, _ := peer.CtxProtoVersion(res.ctx); v != remote.version && !replayed {
				r.Fail("wrong-version", side, "conn%d %s: proto version in context is %d, remote runs %d", i, side, v, remote.version)
			}
		}
		check("dialer", c.resOut, c.in, signOut, replayedToOut)
		check("listener", c.resIn, c.out, signIn, replayedToIn)
		r.Count("evals")
	}
	nf := 0
	for _, v := range r.Faults {
		nf += v
	}
	r.Nontriv = nf > 0 || faultFree
	r.State(core.Mix(0, fmt.Sprint(len(ends)), fmt.Sprint(nconns)))
}

func (h *hsHarness) waiterRunnable(tag string) bool {
	for _, c := range h.conns {
		for _, isOut := range []bool{true, false} {
			s := &hsSide{c: c, isOut: isOut}
			if s.tag() != tag {
				continue
			}
			dir := c.toOut
			if !isOut {
				dir = c.toIn
			}
			if (isOut && c.closedByOut && !c.halfOut) || (!isOut && c.closedByIn && !c.halfIn) {
				return true
			}
			return (len(dir.segs) > 0 && !dir.held) || (dir.closed && len(dir.segs) == 0)
		}
	}
	return false
}

func errStr(err error) string {
	if err == nil {
		return "success"
	}
	return err.Error()
}
