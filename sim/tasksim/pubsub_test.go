package tasksim

// C17: pub/sub delivers exactly to matching member subscriptions and leaks no state.
// Real code: one pubsub engine in the relay role (node), 1-2 pubsub engines in the client role, each with its
// private stream pool, dial pool, dispatch loop and resync loop. Harness: every drpc stream (a pair of ends
// or one end with a harness-played remote), peers/conns, membership table, relay topology, accounts.
// The seeded scheduler orders every MsgRecv/MsgSend and every yield point inside the engine and the pool.
// A reference model written from the property text is stepped at the same points: which patterns a stream has
// registered, which tags route to it, who must get a copy of a publish, which handlers a client must call.

import (
	"bytes"
	"context"
	"crypto/ed25519"
	"encoding/binary"
	"encoding/hex"
	"errors"
	"fmt"
	"sort"
	"strings"
	"sync"
	"testing/synctest"
	"time"

	"github.com/cheggaaa/mb/v3"
	"golang.org/x/time/rate"
	"storj.io/drpc"

	"github.com/anyproto/any-sync/app"
	"github.com/anyproto/any-sync/commonspace/object/accountdata"
	"github.com/anyproto/any-sync/commonspace/pubsub"
	"github.com/anyproto/any-sync/commonspace/pubsub/pubsubproto"
	"github.com/anyproto/any-sync/net/peer"
	"github.com/anyproto/any-sync/net/streampool"
	"github.com/anyproto/any-sync/testutil/accounttest"
	"github.com/anyproto/any-sync/util/crypto"
	"github.com/anyproto/any-sync/util/simhook"

	"verif/sim/core"
)

func init() { props["C17"] = runC17 }

// ---- reference semantics (from the property text and the protocol comments) ---------------------------------

func psSegsOK(s string) ([]string, bool) {
	if len(s) == 0 || len(s) > 256 {
		return nil, false
	}
	segs := strings.Split(s, "/")
	if len(segs) > 16 {
		return nil, false
	}
	for _, g := range segs {
		if g == "" {
			return nil, false
		}
	}
	return segs, true
}

func psValidTopic(t string) bool {
	segs, ok := psSegsOK(t)
	if !ok {
		return false
	}
	for _, g := range segs {
		if strings.ContainsAny(g, "*>") {
			return false
		}
	}
	return true
}

func psValidPattern(p string) bool {
	segs, ok := psSegsOK(p)
	if !ok {
		return false
	}
	for i, g := range segs {
		switch {
		case g == "*":
		case g == ">":
			if i != len(segs)-1 {
				return false
			}
		case strings.ContainsAny(g, "*>"):
			return false
		}
	}
	return true
}

// psMatch: segment by segment, '*' one segment, trailing '>' one or more.
func psMatch(pattern, topic string) bool {
	ps, ts := strings.Split(pattern, "/"), strings.Split(topic, "/")
	for i, g := range ps {
		if g == ">" && i == len(ps)-1 {
			return len(ts) > i
		}
		if i >= len(ts) {
			return false
		}
		if g != "*" && g != ts[i] {
			return false
		}
	}
	return len(ps) == len(ts)
}

func psOwner(topic string) string {
	segs := strings.Split(topic, "/")
	if len(segs) < 2 || segs[0] != "acc" {
		return ""
	}
	return segs[len(segs)-1]
}

func psSignData(p *pubsubproto.Publish) []byte {
	buf := []byte("anysync:pubsub:v1")
	for _, f := range [][]byte{[]byte(p.SpaceId), []byte(p.Topic), p.MsgId, []byte(p.KeyId)} {
		buf = binary.LittleEndian.AppendUint32(buf, uint32(len(f)))
		buf = append(buf, f...)
	}
	buf = binary.LittleEndian.AppendUint64(buf, uint64(p.TimestampMilli))
	return append(buf, p.Payload...)
}

// ---- world -------------------------------------------------------------------------------------------------

const (
	psMaxPayload = 48
	psSkew       = 5 * time.Minute
)

type psAcct struct {
	name  string
	keys  *accountdata.AccountKeys
	ident []byte
	id    string // account id (what topics in the acc/ namespace end with)
}

type psFrame struct {
	msg    *pubsubproto.PubSubMessage
	accept bool   // model verdict at the moment the frame was taken from the stream
	why    string // reason of a rejection
	key    string // publishes: hex msg id
}

type psStream struct {
	w       *psWorld
	n       int
	nm      string
	ctx     context.Context
	owner   string // "node" or a client name: the engine whose pool holds this end
	remote  string // peer id of the other side
	acct    *psAcct
	peerEnd *psStream
	inbox   [][]byte
	eof     bool
	closed  bool
	failing bool // the next MsgSend fails
	sends   int
	// model (node-owned ends)
	inPool   bool
	gone     bool                       // removed from the pool
	reg      map[string]map[string]bool // space -> patterns registered
	tags     map[string]bool
	cur      *psFrame
	applied  bool // the current frame reached its effect point
	untag    []string
	matched  []string
	poolId   uint32
	otherOut bool // node's outbound stream to another responsible node
	writeErr bool
}

func (s *psStream) Context() context.Context { return s.ctx }
func (s *psStream) CloseSend() error         { return nil }
func (s *psStream) Close() error {
	s.w.hmu.Lock()
	defer s.w.hmu.Unlock()
	s.closed = true
	if s.peerEnd != nil {
		s.peerEnd.eof = true
	}
	return nil
}

var errPsEOF = errors.New("remote closed")
var errPsWrite = errors.New("write failed")

func (s *psStream) MsgRecv(msg drpc.Message, _ drpc.Encoding) error {
	w := s.w
	w.sch.Adopt("rd-" + s.nm)
	w.sch.Park("recv:" + s.nm)
	w.hmu.Lock()
	defer w.hmu.Unlock()
	if s.closed || len(s.inbox) == 0 {
		return errPsEOF
	}
	b := s.inbox[0]
	s.inbox = s.inbox[1:]
	m := msg.(*pubsubproto.PubSubMessage)
	if err := m.UnmarshalVT(b); err != nil {
		return err
	}
	return nil
}

func (s *psStream) MsgSend(msg drpc.Message, _ drpc.Encoding) error {
	w := s.w
	w.sch.Adopt("wr-" + s.nm)
	w.sch.Park("send:" + s.nm)
	w.hmu.Lock()
	defer w.hmu.Unlock()
	if s.closed {
		return errPsWrite
	}
	if s.failing {
		s.failing = false
		s.writeErr = true
		w.r.Fault("write-error")
		w.ev("send-error", "%s", s.nm)
		return errPsWrite
	}
	s.sends++
	b, err := msg.(*pubsubproto.PubSubMessage).MarshalVT()
	if err != nil {
		return err
	}
	w.onWrite(s, b)
	if s.peerEnd != nil {
		s.peerEnd.inbox = append(s.peerEnd.inbox, b)
	}
	return nil
}

type psPeer struct {
	peer.Peer
	w      *psWorld
	id     string
	opener string // engine that dials
}

func (p *psPeer) Id() string                                 { return p.id }
func (p *psPeer) Context() context.Context                   { return context.Background() }
func (p *psPeer) SetTTL(time.Duration)                       {}
func (p *psPeer) ReleaseDrpcConn(context.Context, drpc.Conn) {}
func (p *psPeer) AcquireDrpcConn(ctx context.Context) (drpc.Conn, error) {
	return &psConn{p: p}, nil
}

type psConn struct{ p *psPeer }

func (c *psConn) Close() error            { return nil }
func (c *psConn) Closed() <-chan struct{} { return make(chan struct{}) }
func (c *psConn) Invoke(context.Context, string, drpc.Encoding, drpc.Message, drpc.Message) error {
	return errors.New("not used")
}

// NewStream: the dialing engine gets one end; when the target is the real node the other end is served by it.
func (c *psConn) NewStream(ctx context.Context, rpc string, enc drpc.Encoding) (drpc.Stream, error) {
	w, p := c.p.w, c.p
	w.hmu.Lock()
	defer w.hmu.Unlock()
	local := w.newStream(p.opener, p.id, nil)
	if p.opener == "node" {
		local.otherOut = true
		w.ev("node-dials", "%s -> other node %s", local.nm, p.id)
		return local, nil
	}
	cl := w.client(p.opener)
	remote := w.newStream("node", cl.peerId, cl.acct)
	local.peerEnd, remote.peerEnd = remote, local
	cl.links = append(cl.links, local)
	w.ev("client-dials", "%s: %s <-> %s", cl.name, local.nm, remote.nm)
	w.serve(remote)
	return local, nil
}

type psCall struct {
	sub     int
	space   string
	topic   string
	account string
	payload string
}

type psSub struct {
	id      int
	space   string
	pattern string
	unsub   func()
	active  bool
}

type psClient struct {
	name    string
	acct    *psAcct
	peerId  string
	svc     pubsub.Service
	a       *app.App
	subs    []*psSub
	calls   []psCall
	seen    map[string]bool // msg ids accepted or published by this client
	links   []*psStream
	online  bool
	pending []psCall // expected calls of the current grant
}

type psWorld struct {
	// hmu orders harness state accesses for the race detector: the event loop holds it except while it lets
	// other goroutines run; callbacks from goroutines of the code under test take it (only one goroutine runs
	// at a time by construction, but the detector does not see synctest's quiescence as synchronisation)
	hmu     sync.Mutex
	r       *core.Run
	s       *core.Src
	sch     *core.Sched
	node    pubsub.Service
	nodeApp *app.App
	accts   []*psAcct
	nodes   []*psAcct // other responsible nodes
	clients []*psClient
	streams []*psStream
	member  map[string]map[string]bool // space -> account id -> member
	// expected copies: msg key -> stream name -> count
	expect    map[string]map[string]int
	forward   map[string]map[string]int // msg key -> other node peer id -> forwarded copies seen
	wantFwd   map[string]bool           // msg key -> a forward to every other node is expected
	noFwd     map[string]bool           // msg key -> must never be forwarded
	seenPub   []*pubsubproto.Publish    // valid publishes seen on the wire (material for replays)
	opN       int
	teardown  bool
	msgN      int
	ops       []psOp
	rateBurst int // > 0: the node's publish budget is in reach (1 message per second, this burst)
	buckets   map[string]*rate.Limiter
	nodeOpen  bool // the node has no membership checker: every proven identity may subscribe and publish
}

var psSpaces = []string{"sA", "sB"}

// sym replaces account ids (random per process: Go's key generation deliberately defeats seeding) by account names.
func (w *psWorld) sym(t string) string {
	for _, a := range w.accts {
		t = strings.ReplaceAll(t, a.id, "<"+a.name+">")
	}
	for _, a := range w.nodes {
		t = strings.ReplaceAll(t, a.id, "<"+a.name+">")
	}
	return t
}

func (w *psWorld) ev(kind, format string, a ...any) {
	w.r.Event(kind, "%s", w.sym(fmt.Sprintf(format, a...)))
}
func (w *psWorld) fail(oracle, sig, format string, a ...any) {
	w.r.Fail(oracle, sig, "%s", w.sym(fmt.Sprintf(format, a...)))
}
func (w *psWorld) failNP(oracle, sig, format string, a ...any) {
	w.r.FailNoPanic(oracle, sig, "%s", w.sym(fmt.Sprintf(format, a...)))
}

// symSort sorts strings by their symbolic form (choice indexes must not depend on key bytes).
func (w *psWorld) symSort(l []string) {
	sort.Slice(l, func(i, j int) bool { return w.sym(l[i]) < w.sym(l[j]) })
}

func (w *psWorld) client(name string) *psClient {
	for _, c := range w.clients {
		if c.name == name {
			return c
		}
	}
	return nil
}

func (w *psWorld) isMember(space, account string) bool { return w.member[space][account] }

func (w *psWorld) responsible(space string) bool { return space == "sA" || space == "sB" }

func (w *psWorld) isNodePeer(peerId string) bool {
	for _, n := range w.nodes {
		if n.name == peerId {
			return true
		}
	}
	return false
}

// harness components of the engines
type psMembership struct{ w *psWorld }

func (m psMembership) CheckMember(_ context.Context, spaceId string, identity crypto.PubKey) error {
	m.w.hmu.Lock()
	defer m.w.hmu.Unlock()
	if m.w.isMember(spaceId, identity.Account()) {
		return nil
	}
	return errors.New("not a member")
}

type psRelay struct{ w *psWorld }

func (r psRelay) IsResponsible(spaceId string) bool       { return r.w.responsible(spaceId) }
func (r psRelay) IsResponsibleNode(_, peerId string) bool { return r.w.isNodePeer(peerId) }
func (r psRelay) OtherResponsiblePeers(context.Context, string) ([]peer.Peer, error) {
	var ps []peer.Peer
	for _, n := range r.w.nodes {
		ps = append(ps, &psPeer{w: r.w, id: n.name, opener: "node"})
	}
	return ps, nil
}

type psPeers struct {
	w *psWorld
	c *psClient
}

func (p psPeers) SpacePeers(context.Context, string) ([]peer.Peer, error) {
	p.w.hmu.Lock()
	defer p.w.hmu.Unlock()
	if !p.c.online {
		return nil, nil
	}
	return []peer.Peer{&psPeer{w: p.w, id: "NODE", opener: p.c.name}}, nil
}

// newAcct: keys derived from the run's seeded byte stream (Go's own key generation deliberately defeats
// seeding, and account ids decide sort orders).
func (w *psWorld) newAcct(name string) *psAcct {
	mk := func() crypto.PrivKey {
		seed := make([]byte, ed25519.SeedSize)
		_, _ = w.r.Crypto.Read(seed)
		return crypto.NewEd25519PrivKey(ed25519.NewKeyFromSeed(seed))
	}
	k := accountdata.New(mk(), mk())
	var err error
	id, err := k.SignKey.GetPublic().Marshall()
	must(err)
	return &psAcct{name: name, keys: k, ident: id, id: k.SignKey.GetPublic().Account()}
}

func (w *psWorld) newStream(owner, remotePeer string, acct *psAcct) *psStream {
	st := &psStream{w: w, n: len(w.streams) + 1, owner: owner, remote: remotePeer, acct: acct,
		reg: map[string]map[string]bool{}, tags: map[string]bool{}}
	st.nm = fmt.Sprintf("x%d", st.n)
	ctx := peer.CtxWithPeerId(context.Background(), remotePeer)
	if acct != nil {
		ctx = peer.CtxWithIdentity(ctx, acct.ident)
	} else if w.s.Flip("nil-identity-in-ctx", 0.5) {
		ctx = peer.CtxWithIdentity(ctx, nil) // what the transport records for an unverified inbound connection
	}
	st.ctx = ctx
	w.streams = append(w.streams, st)
	return st
}

func (w *psWorld) stream(nm string) *psStream {
	for _, s := range w.streams {
		if s.nm == nm {
			return s
		}
	}
	return nil
}

// serve hands an inbound stream to the node (as the DRPC server would).
func (w *psWorld) serve(st *psStream) {
	w.sch.Go("hs-"+st.nm, func() { _ = w.node.HandleStream(st) })
}

// ---- model: verdicts ----------------------------------------------------------------------------------------

func (w *psWorld) verdictSubscribe(st *psStream, sub *pubsubproto.Subscribe) (bool, string) {
	switch {
	case st.acct == nil:
		return false, "no handshake identity"
	case sub.SpaceId == "" || strings.Contains(sub.SpaceId, "/"):
		return false, "bad space id"
	case !w.responsible(sub.SpaceId):
		return false, "not responsible"
	}
	for _, p := range sub.Topics {
		if !psValidPattern(p) {
			return false, "invalid pattern"
		}
	}
	if !w.nodeOpen && !w.isMember(sub.SpaceId, st.acct.id) {
		return false, "not a member"
	}
	return true, ""
}

func (w *psWorld) verdictPublishAtNode(st *psStream, p *pubsubproto.Publish) (bool, string) {
	switch {
	case len(p.MsgId) != 16:
		return false, "bad msg id"
	case len(p.Payload) > psMaxPayload:
		return false, "oversized"
	case !psValidTopic(p.Topic):
		return false, "invalid topic"
	case !w.responsible(p.SpaceId):
		return false, "not responsible"
	}
	if p.Relayed {
		if !w.isNodePeer(st.remote) {
			return false, "relayed by a non-node"
		}
		return true, ""
	}
	switch {
	case st.acct == nil || len(p.Identity) == 0 || !bytes.Equal(st.acct.ident, p.Identity):
		return false, "identity not bound to the handshake"
	case !w.nodeOpen && !w.isMember(p.SpaceId, st.acct.id):
		return false, "not a member"
	}
	if o := psOwner(p.Topic); o != "" && o != st.acct.id {
		return false, "topic owned by another account"
	}
	// the per-peer publish budget is spent by authorised client publishes only (relayed messages were
	// budgeted by the node that accepted them)
	if w.rateBurst > 0 {
		l := w.buckets[st.remote]
		if l == nil {
			l = rate.NewLimiter(1, w.rateBurst)
			w.buckets[st.remote] = l
		}
		if !l.Allow() {
			w.r.Probe("rate-limited")
			return false, "over the publish budget of its peer"
		}
	}
	return true, ""
}

func (w *psWorld) acctByIdent(id []byte) *psAcct {
	for _, a := range append(append([]*psAcct{}, w.accts...), w.nodes...) {
		if bytes.Equal(a.ident, id) {
			return a
		}
	}
	return nil
}

// verdictAtClient: must the client hand the publish to its handlers?
func (w *psWorld) verdictAtClient(c *psClient, p *pubsubproto.Publish) (bool, string) {
	switch {
	case len(p.MsgId) != 16:
		return false, "bad msg id"
	case len(p.Payload) > psMaxPayload:
		return false, "oversized"
	case !psValidTopic(p.Topic):
		return false, "invalid topic"
	}
	a := w.acctByIdent(p.Identity)
	if a == nil {
		if _, err := crypto.UnmarshalEd25519PublicKeyProto(p.Identity); err != nil {
			return false, "identity does not parse"
		}
		return false, "unknown identity (never a member)"
	}
	if !w.isMember(p.SpaceId, a.id) {
		return false, "signer not a member"
	}
	if o := psOwner(p.Topic); o != "" && o != a.id {
		return false, "topic owned by another account"
	}
	if p.TimestampMilli != 0 {
		d := time.Now().UnixMilli() - p.TimestampMilli
		if d > psSkew.Milliseconds() || d < -psSkew.Milliseconds() {
			return false, "stale"
		}
	}
	if ok, err := a.keys.SignKey.GetPublic().Verify(psSignData(p), p.Signature); err != nil || !ok {
		return false, "bad signature"
	}
	if c.seen[hex.EncodeToString(p.MsgId)] {
		return false, "replayed"
	}
	if p.KeyId != "" {
		return false, "encrypted for a keyless client"
	}
	return true, ""
}

// ---- model: effects at the scheduling points -------------------------------------------------------------------

func psTag(space, pattern string) string { return space + "/" + pattern }

func (w *psWorld) nodeStreams() []*psStream {
	var l []*psStream
	for _, s := range w.streams {
		if s.owner == "node" && !s.otherOut {
			l = append(l, s)
		}
	}
	return l
}

func (st *psStream) dropSpace(space string) {
	for p := range st.reg[space] {
		delete(st.tags, psTag(space, p))
	}
	delete(st.reg, space)
}

// taskStream: the stream a task name refers to.
func (w *psWorld) taskStream(task string) *psStream {
	for _, pre := range []string{"hs-", "rd-", "wr-"} {
		if strings.HasPrefix(task, pre) {
			nm := task[len(pre):]
			if i := strings.IndexByte(nm, '#'); i >= 0 {
				nm = nm[:i]
			}
			return w.stream(nm)
		}
	}
	return nil
}

// pre applies the model effect of the region a task is about to run (from its park point to the next one).
func (w *psWorld) pre(task, point string) {
	if strings.HasPrefix(task, "op-") {
		w.preOp(task, point)
		return
	}
	st := w.taskStream(task)
	switch {
	case strings.HasPrefix(point, "recv:"):
		if st == nil || st.owner != "node" {
			if st != nil {
				w.preClientRecv(st)
			}
			return
		}
		w.finishFrame(st)
		if st.closed || len(st.inbox) == 0 {
			w.ev("eof", "%s", st.nm)
			return
		}
		m := &pubsubproto.PubSubMessage{}
		must(m.UnmarshalVT(st.inbox[0]))
		f := &psFrame{msg: m}
		switch {
		case m.GetSubscribe() != nil:
			f.accept, f.why = w.verdictSubscribe(st, m.GetSubscribe())
			w.ev("node-recv", "%s subscribe %s %q: accept=%v %s", st.nm, m.GetSubscribe().SpaceId, m.GetSubscribe().Topics, f.accept, f.why)
		case m.GetUnsubscribe() != nil:
			f.accept = true
			w.ev("node-recv", "%s unsubscribe %s %q", st.nm, m.GetUnsubscribe().SpaceId, m.GetUnsubscribe().Topics)
		case m.GetPublish() != nil:
			p := m.GetPublish()
			f.accept, f.why = w.verdictPublishAtNode(st, p)
			f.key = hex.EncodeToString(p.MsgId)
			if f.accept && !p.Relayed {
				w.wantFwd[f.key] = true
			} else {
				w.noFwd[f.key] = true
			}
			if f.accept {
				w.r.Probe("publish-accepted-by-node")
			} else {
				w.r.Probe("publish-rejected-by-node")
			}
			w.ev("node-recv", "%s publish %s %q relayed=%v: accept=%v %s", st.nm, p.SpaceId, p.Topic, p.Relayed, f.accept, f.why)
		default:
			f.accept = true
			w.ev("node-recv", "%s other frame", st.nm)
		}
		st.cur, st.applied = f, false
	case point == "streampool.addStream":
		if st != nil && st.owner == "node" {
			st.inPool = true
		}
	case point == "pubsub.handleSubscribe":
		if st == nil || st.owner != "node" || st.cur == nil || st.cur.msg.GetSubscribe() == nil {
			return
		}
		sub := st.cur.msg.GetSubscribe()
		if !st.cur.accept {
			w.failNP("invalid-subscribe-accepted", st.cur.why, "%s: the node is about to register the subscription %s %q although it must be refused (%s)", st.nm, sub.SpaceId, sub.Topics, st.cur.why)
			return
		}
		st.applied = true
		if st.inPool && !st.gone {
			if st.reg[sub.SpaceId] == nil {
				st.reg[sub.SpaceId] = map[string]bool{}
			}
			for _, p := range sub.Topics {
				st.reg[sub.SpaceId][p] = true
				st.tags[psTag(sub.SpaceId, p)] = true
			}
			w.r.Probe("subscription-registered")
		} else {
			w.r.Probe("subscribe-raced-with-close")
		}
	case point == "pubsub.handleUnsubscribe":
		if st == nil || st.owner != "node" || st.cur == nil || st.cur.msg.GetUnsubscribe() == nil {
			return
		}
		st.applied = true
		un := st.cur.msg.GetUnsubscribe()
		pats := un.Topics
		if len(pats) == 0 {
			for p := range st.reg[un.SpaceId] {
				pats = append(pats, p)
			}
		}
		st.untag = nil
		for _, p := range pats {
			if st.reg[un.SpaceId][p] {
				delete(st.reg[un.SpaceId], p)
				st.untag = append(st.untag, psTag(un.SpaceId, p))
			}
		}
		if len(st.reg[un.SpaceId]) == 0 {
			delete(st.reg, un.SpaceId)
		}
	case point == "pubsub.handleUnsubscribe.tags":
		if st != nil {
			for _, t := range st.untag {
				delete(st.tags, t)
			}
			st.untag = nil
		}
	case point == "pubsub.fanout":
		if st == nil || st.owner != "node" || st.cur == nil || st.cur.msg.GetPublish() == nil {
			return
		}
		p := st.cur.msg.GetPublish()
		if !st.cur.accept {
			w.failNP("unauthorised-publish-fanned-out", st.cur.why, "%s: the node fans out the publish %s %q (relayed=%v) although it must be refused (%s)", st.nm, p.SpaceId, p.Topic, p.Relayed, st.cur.why)
			return
		}
		st.applied = true
		set := map[string]bool{}
		for _, x := range w.nodeStreams() {
			for pat := range x.reg[p.SpaceId] {
				if psMatch(pat, p.Topic) {
					set[psTag(p.SpaceId, pat)] = true
				}
			}
		}
		st.matched = nil
		for t := range set {
			st.matched = append(st.matched, t)
		}
		sort.Strings(st.matched)
	case point == "streampool.Broadcast":
		if st == nil || st.owner != "node" || st.cur == nil || st.cur.msg.GetPublish() == nil {
			return
		}
		key := st.cur.key
		for _, x := range w.nodeStreams() {
			if !x.inPool || x.gone {
				continue
			}
			for _, t := range st.matched {
				if x.tags[t] {
					if w.expect[key] == nil {
						w.expect[key] = map[string]int{}
					}
					w.expect[key][x.nm]++
					w.r.Probe("copy-expected")
					break
				}
			}
		}
	case point == "streampool.removeStream":
		if st != nil && st.owner == "node" {
			st.gone = true
			st.tags = map[string]bool{}
		}
	case point == "pubsub.onStreamClose":
		if st != nil && st.owner == "node" {
			if len(st.reg) > 0 {
				w.r.Probe("interest-dropped-on-close")
			}
			st.reg = map[string]map[string]bool{}
		}
	}
}

// finishFrame: the reader is back for the next frame: the previous one must have had its effect.
func (w *psWorld) finishFrame(st *psStream) {
	f := st.cur
	st.cur = nil
	if f == nil || st.applied || !f.accept {
		return
	}
	switch {
	case f.msg.GetSubscribe() != nil:
		s := f.msg.GetSubscribe()
		w.failNP("valid-subscribe-refused", "", "%s: the subscription %s %q of a member was not registered", st.nm, s.SpaceId, s.Topics)
	case f.msg.GetPublish() != nil:
		p := f.msg.GetPublish()
		w.failNP("valid-publish-dropped", "", "%s: the node dropped the publish %s %q (relayed=%v) of an authorised publisher without matching it against the subscriptions", st.nm, p.SpaceId, p.Topic, p.Relayed)
	}
}

// onWrite: a frame leaves an engine.
func (w *psWorld) onWrite(st *psStream, b []byte) {
	m := &pubsubproto.PubSubMessage{}
	must(m.UnmarshalVT(b))
	p := m.GetPublish()
	if st.owner != "node" {
		if p != nil {
			c := w.client(st.owner)
			c.seen[hex.EncodeToString(p.MsgId)] = true
			w.seenPub = append(w.seenPub, p)
			w.ev("client-sends", "%s %s publish %s %q", st.owner, st.nm, p.SpaceId, p.Topic)
		}
		return
	}
	if p == nil {
		if s := m.GetStatus(); s != nil {
			w.ev("node-status", "%s code=%s topics=%q", st.nm, s.Code, s.Topics)
		}
		return
	}
	key := hex.EncodeToString(p.MsgId)
	if st.otherOut || (p.Relayed && w.isNodePeer(st.remote) && w.expect[key][st.nm] == 0) {
		// a copy for another responsible node
		if !p.Relayed {
			w.failNP("forward-not-marked-relayed", "", "%s: the copy of %s for the other node %s does not carry the relayed mark (it would be forwarded again)", st.nm, key[:8], st.remote)
			return
		}
		if w.noFwd[key] {
			w.failNP("forwarded-again", "", "%s: the message %s (%q), which arrived relayed or was refused, is forwarded to the node %s", st.nm, key[:8], p.Topic, st.remote)
			return
		}
		if w.forward[key] == nil {
			w.forward[key] = map[string]int{}
		}
		w.forward[key][st.remote]++
		if w.forward[key][st.remote] > 1 {
			w.failNP("forwarded-twice", "", "the message %s is forwarded to the node %s %d times", key[:8], st.remote, w.forward[key][st.remote])
		}
		w.r.Probe("forwarded-to-other-node")
		w.ev("node-forwards", "%s -> %s %q", st.nm, st.remote, p.Topic)
		return
	}
	if w.expect[key][st.nm] <= 0 {
		w.failNP("unexpected-delivery", "", "%s (peer %s, account %s): a copy of the publish %s %s %q is written to the stream, which has no registered pattern matching it (registered: %v; or it already got its copy)", st.nm, st.remote, acctName(st.acct), key[:8], p.SpaceId, p.Topic, st.regList())
		return
	}
	w.expect[key][st.nm]--
	w.r.Probe("copy-delivered")
	w.ev("node-delivers", "%s <- %s %q", st.nm, p.SpaceId, p.Topic)
}

func acctName(a *psAcct) string {
	if a == nil {
		return "<unverified>"
	}
	return a.name
}

func (st *psStream) regList() []string {
	var l []string
	for sp, m := range st.reg {
		for p := range m {
			l = append(l, sp+"/"+p)
		}
	}
	sort.Strings(l)
	return l
}

// ---- client side -------------------------------------------------------------------------------------------------

func (w *psWorld) expectedCalls(c *psClient, space, topic, account, payload string) []psCall {
	var l []psCall
	for _, s := range c.subs {
		if s.active && s.space == space && psMatch(s.pattern, topic) {
			l = append(l, psCall{s.id, space, topic, account, payload})
		}
	}
	return l
}

func (w *psWorld) preClientRecv(st *psStream) {
	c := w.client(st.owner)
	c.pending = nil
	if c == nil || st.closed || len(st.inbox) == 0 {
		return
	}
	m := &pubsubproto.PubSubMessage{}
	must(m.UnmarshalVT(st.inbox[0]))
	p := m.GetPublish()
	if p == nil {
		return
	}
	ok, why := w.verdictAtClient(c, p)
	var exp []psCall
	if ok {
		a := w.acctByIdent(p.Identity)
		exp = w.expectedCalls(c, p.SpaceId, p.Topic, a.id, string(p.Payload))
		if len(exp) > 0 {
			c.seen[hex.EncodeToString(p.MsgId)] = true
			w.seenPub = append(w.seenPub, p)
			w.r.Probe("delivered-to-handler")
		}
	} else {
		w.r.Probe("client-drops:" + why)
	}
	c.pending = exp
	w.ev("client-recv", "%s %s publish %s %q: deliver=%v %s -> %d handler calls", c.name, st.nm, p.SpaceId, p.Topic, ok, why, len(exp))
}

func callsKey(l []psCall) string {
	var s []string
	for _, c := range l {
		s = append(s, fmt.Sprintf("sub%d|%s|%s|%s|%s", c.sub, c.space, c.topic, c.account, c.payload))
	}
	sort.Strings(s)
	return strings.Join(s, " ; ")
}

// checkCalls compares the handler calls made during the last grant with the expected ones.
func (w *psWorld) checkCalls(c *psClient, what string) {
	got, exp := callsKey(c.calls), callsKey(c.pending)
	c.calls, c.pending = nil, nil
	if got != exp {
		w.fail("handler-calls-differ", what, "%s (%s): handler calls made: [%s]; expected from the subscriptions and the message: [%s]", c.name, what, got, exp)
	}
}

// ---- state agreement ----------------------------------------------------------------------------------------------

func (w *psWorld) mapIds() streampool.VerifPoolState {
	st, _ := pubsub.VerifState(w.node)
	ps := st.Pool.(interface {
		VerifState() streampool.VerifPoolState
	}).VerifState()
	for id, obj := range ps.Objs {
		if x, ok := obj.(*psStream); ok {
			x.poolId = id
		}
	}
	return ps
}

func (w *psWorld) checkNode(when string) {
	r := w.r
	ps := w.mapIds()
	st, _ := pubsub.VerifState(w.node)
	refs := map[string]map[string]int{}
	byId := map[uint32]*psStream{}
	for _, x := range w.nodeStreams() {
		if x.poolId != 0 {
			byId[x.poolId] = x
		}
		for sp, m := range x.reg {
			for p := range m {
				if refs[sp] == nil {
					refs[sp] = map[string]int{}
				}
				refs[sp][p]++
			}
		}
	}
	// per-stream interest records
	for id, rec := range st.Streams {
		x := byId[id]
		if x == nil {
			w.fail("interest-for-unknown-stream", "", "(%s) the engine keeps an interest record for stream id %d, which is not a stream of the pool", when, id)
		}
		var l []string
		for sp, pats := range rec.BySpace {
			for _, p := range pats {
				l = append(l, sp+"/"+p)
			}
		}
		sort.Strings(l)
		if fmt.Sprint(l) != fmt.Sprint(x.regList()) {
			w.fail("interest-record-differs", "", "(%s) %s: the engine records the patterns %v for the stream, the reference model %v", when, x.nm, l, x.regList())
		}
		if rec.Total != len(l) {
			w.fail("interest-count-differs", "", "(%s) %s: pattern counter %d, patterns recorded %d", when, x.nm, rec.Total, len(l))
		}
	}
	for _, x := range w.nodeStreams() {
		if len(x.regList()) > 0 {
			if _, ok := st.Streams[x.poolId]; !ok || x.poolId == 0 {
				w.fail("interest-record-missing", "", "(%s) %s: the reference model has the patterns %v registered, the engine has no record for the stream", when, x.nm, x.regList())
			}
		}
		// routing tags
		if x.poolId != 0 && x.inPool && !x.gone {
			var have, want []string
			have = append(have, ps.Tags[x.poolId]...)
			for t := range x.tags {
				want = append(want, t)
			}
			sort.Strings(have)
			sort.Strings(want)
			if fmt.Sprint(have) != fmt.Sprint(want) {
				w.fail("routing-tags-differ", "", "(%s) %s: the pool routes the tags %v to the stream, the reference model %v", when, x.nm, have, want)
			}
		}
	}
	// match trie
	for sp, m := range st.Remote {
		if fmt.Sprint(sortedKV(m)) != fmt.Sprint(sortedKV(refs[sp])) {
			w.fail("trie-refcounts-differ", "", "(%s) space %s: trie refcounts %v, subscribing streams per pattern %v", when, sp, sortedKV(m), sortedKV(refs[sp]))
		}
		if st.RemoteLen[sp] != len(m) || len(m) == 0 {
			w.fail("trie-size-differs", "", "(%s) space %s: trie Len=%d, live patterns=%d (empty tries must be dropped)", when, sp, st.RemoteLen[sp], len(m))
		}
	}
	for sp, m := range refs {
		if _, ok := st.Remote[sp]; !ok && len(m) > 0 {
			w.fail("trie-refcounts-differ", "missing", "(%s) space %s: no trie although %v are registered", when, sp, sortedKV(m))
		}
	}
	r.Count("evals")
}

func sortedKV(m map[string]int) []string {
	var l []string
	for k, v := range m {
		l = append(l, fmt.Sprintf("%s=%d", k, v))
	}
	sort.Strings(l)
	return l
}

func (w *psWorld) checkClientState(c *psClient, when string) {
	st, _ := pubsub.VerifState(c.svc)
	want := map[string]map[string]int{}
	for _, s := range c.subs {
		if s.active {
			if want[s.space] == nil {
				want[s.space] = map[string]int{}
			}
			want[s.space][s.pattern]++
		}
	}
	for sp, m := range st.Local {
		if fmt.Sprint(sortedKV(m)) != fmt.Sprint(sortedKV(want[sp])) {
			w.fail("local-subscriptions-differ", "", "(%s) %s space %s: engine %v, model %v", when, c.name, sp, sortedKV(m), sortedKV(want[sp]))
		}
		if st.LocalLen[sp] != len(m) || st.LocalCap[sp] != len(m) || len(m) == 0 {
			w.fail("local-bookkeeping-leaks", "", "(%s) %s space %s: %d patterns with handlers, trie Len %d, pattern counter %d", when, c.name, sp, len(m), st.LocalLen[sp], st.LocalCap[sp])
		}
	}
	for sp, m := range want {
		if _, ok := st.Local[sp]; !ok {
			w.fail("local-subscriptions-differ", "missing", "(%s) %s space %s: engine has nothing, model %v", when, c.name, sp, sortedKV(m))
		}
	}
	if len(st.LocalLen) != len(st.Local) || len(st.LocalCap) != len(st.Local) {
		w.fail("local-bookkeeping-leaks", "spaces", "(%s) %s: %d spaces with handlers, %d tries, %d counters", when, c.name, len(st.Local), len(st.LocalLen), len(st.LocalCap))
	}
}

// ---- generators ---------------------------------------------------------------------------------------------------

func (w *psWorld) genSegs(pattern bool, valid bool) string {
	s := w.s
	lits := []string{"a", "b", "a", "b", "acc", w.accts[0].id, w.accts[1].id}
	n := 1 + s.Choose("nseg", 4)
	if n == 4 && s.Flip("shorter", 0.5) {
		n = 2
	}
	var segs []string
	for i := 0; i < n; i++ {
		if pattern && s.Flip("wild", 0.3) {
			if i == n-1 && s.Flip("tail", 0.5) {
				segs = append(segs, ">")
			} else {
				segs = append(segs, "*")
			}
			continue
		}
		segs = append(segs, lits[s.Choose("lit", len(lits))])
	}
	t := strings.Join(segs, "/")
	if valid {
		return t
	}
	switch s.Choose("invalid-kind", 8) {
	case 0:
		return ""
	case 1:
		return "/" + t
	case 2:
		return t + "/"
	case 3:
		return "a//b"
	case 4:
		if pattern {
			return ">/" + t
		}
		return t + "/*"
	case 5:
		return "a*/" + t
	case 6:
		return strings.Repeat("a/", 16) + "a"
	default:
		return strings.Repeat("a", 257)
	}
}

// instantiate turns a pattern into a topic it matches (wildcards replaced by literals).
func (w *psWorld) instantiate(pattern string) string {
	segs := strings.Split(pattern, "/")
	var out []string
	for _, g := range segs {
		switch g {
		case "*":
			out = append(out, []string{"a", "b"}[w.s.Choose("inst", 2)])
		case ">":
			out = append(out, "b")
			if w.s.Flip("inst-more", 0.4) {
				out = append(out, "a")
			}
		default:
			out = append(out, g)
		}
	}
	return strings.Join(out, "/")
}

// registeredAt: patterns some stream has registered at the node for the space (sorted).
func (w *psWorld) registeredAt(space string) []string {
	set := map[string]bool{}
	for _, x := range w.nodeStreams() {
		for p := range x.reg[space] {
			set[p] = true
		}
	}
	var l []string
	for p := range set {
		l = append(l, p)
	}
	w.symSort(l)
	return l
}

func (w *psWorld) msgId() []byte {
	b := make([]byte, 16)
	_, _ = w.r.Crypto.Read(b)
	return b
}

// genPublish builds a publish frame signed by acct; kind selects a defect.
func (w *psWorld) genPublish(a *psAcct, space string, kind int) (*pubsubproto.Publish, string) {
	s := w.s
	w.msgN++
	p := &pubsubproto.Publish{SpaceId: space, Topic: w.genSegs(false, true), MsgId: w.msgId(), Payload: []byte(fmt.Sprintf("m%d", w.msgN)), TimestampMilli: time.Now().UnixMilli()}
	if reg := w.registeredAt(space); len(reg) > 0 && s.Flip("aim-at-registered", 0.6) {
		if t := w.instantiate(reg[s.Choose("aim-pattern", len(reg))]); psValidTopic(t) && (psOwner(t) == "" || psOwner(t) == a.id) {
			p.Topic = t
		}
	} else if s.Flip("own-namespace", 0.25) {
		p.Topic = "acc/" + []string{"x", "y/z"}[s.Choose("own-mid", 2)] + "/" + a.id
	}
	what := "well-formed"
	sign := func(k *psAcct) {
		p.Identity = k.ident
		sig, err := k.keys.SignKey.Sign(psSignData(p))
		must(err)
		p.Signature = sig
	}
	switch kind {
	case 1:
		p.Topic = w.genSegs(false, false)
		what = "invalid topic"
	case 2:
		p.MsgId = p.MsgId[:8+s.Choose("idlen", 8)]
		what = "short msg id"
	case 3:
		p.Payload = bytes.Repeat([]byte("z"), psMaxPayload+1+s.Choose("over", 4))
		what = "oversized payload"
	case 4:
		other := w.accts[s.Choose("other-owner", len(w.accts))]
		p.Topic = "acc/x/" + other.id
		what = "acc/ topic of " + other.name
	case 5:
		p.TimestampMilli -= (psSkew + time.Duration(1+s.Choose("stale-by", 600))*time.Second).Milliseconds()
		what = "stale timestamp"
	case 6:
		p.TimestampMilli += (psSkew + time.Duration(1+s.Choose("future-by", 600))*time.Second).Milliseconds()
		what = "future timestamp"
	}
	sign(a)
	switch kind {
	case 7:
		p.Signature[s.Choose("sigbyte", len(p.Signature))] ^= 0x40
		what = "signature damaged"
	case 8:
		p.Payload = append([]byte{}, p.Payload...)
		p.Payload = append(p.Payload, '!')
		what = "payload edited after signing"
	case 9:
		p.Topic = p.Topic + "/b"
		what = "topic edited after signing"
	case 10:
		other := w.accts[s.Choose("claimed", len(w.accts))]
		p.Identity = other.ident
		what = "identity replaced by " + other.name + "'s"
	case 11:
		p.Identity = nil
		what = "no identity"
	case 12:
		p.SpaceId = psSpaces[1-indexOf(psSpaces, space)]
		what = "space edited after signing"
	case 13:
		p.Identity = p.Identity[:len(p.Identity)-3]
		what = "identity truncated"
	}
	return p, what
}

func indexOf(l []string, x string) int {
	for i, y := range l {
		if y == x {
			return i
		}
	}
	return 0
}

func wrapPub(p *pubsubproto.Publish) []byte {
	b, err := (&pubsubproto.PubSubMessage{Content: &pubsubproto.PubSubMessage_Publish{Publish: p}}).MarshalVT()
	must(err)
	return b
}

// ---- the run ------------------------------------------------------------------------------------------------------

func runC17(r *core.Run) {
	s := r.Src
	sch := core.NewSched(r)
	w := &psWorld{r: r, s: s, sch: sch, member: map[string]map[string]bool{}, expect: map[string]map[string]int{},
		forward: map[string]map[string]int{}, wantFwd: map[string]bool{}, noFwd: map[string]bool{}}
	simhook.YieldFn = func(p string) { sch.Park(p) }
	simhook.PermFn = func(point string, n int) []int {
		if n < 2 {
			return nil
		}
		w.hmu.Lock()
		defer w.hmu.Unlock()
		p := make([]int, n)
		for i := range p {
			p[i] = i
		}
		for i := n - 1; i > 0; i-- {
			j := s.Choose("sched-perm", i+1)
			p[i], p[j] = p[j], p[i]
		}
		return p
	}
	defer func() { simhook.YieldFn = nil; simhook.PermFn = nil }()
	sch.Off.Store(true)
	for _, n := range []string{"A", "B", "C"} {
		w.accts = append(w.accts, w.newAcct(n))
	}
	nOther := s.Choose("other-nodes", 3)
	for i := 0; i < nOther; i++ {
		w.nodes = append(w.nodes, w.newAcct(fmt.Sprintf("ON%d", i+1)))
	}
	for _, sp := range append(append([]string{}, psSpaces...), "sX") {
		w.member[sp] = map[string]bool{}
		for _, a := range w.accts {
			if s.Flip("member", 0.85) {
				w.member[sp][a.id] = true
			}
		}
	}
	cfg := pubsub.Config{MaxPayloadSize: psMaxPayload, PublishRps: 1e6, PublishBurst: 1 << 20, MaxTimestampSkew: psSkew, DialQueueWorkers: 1}
	nodeCfg := cfg
	w.buckets = map[string]*rate.Limiter{}
	if s.Flip("rate-budget-in-reach", 0.2) {
		w.rateBurst = 2 + s.Choose("burst", 3)
		nodeCfg.PublishRps, nodeCfg.PublishBurst = 1, w.rateBurst
	}
	r.SetCfg("node_publish_burst", w.rateBurst)
	nodeAcct := w.newAcct("NODE")
	nodeDeps := pubsub.Deps{Membership: psMembership{w}, Relay: psRelay{w}, Config: nodeCfg}
	if w.nodeOpen = s.Flip("open-node", 0.15); w.nodeOpen {
		nodeDeps.Membership = nil
	}
	r.SetCfg("node_membership_checker", !w.nodeOpen)
	w.node = pubsub.New(nodeDeps)
	w.nodeApp = new(app.App)
	w.nodeApp.Register(accounttest.NewWithAcc(nodeAcct.keys)).Register(w.node)
	must(w.nodeApp.Start(context.Background()))
	nclients := 1 + s.Choose("clients", 2)
	subN := 0
	for i := 0; i < nclients; i++ {
		c := &psClient{name: fmt.Sprintf("cl%d", i+1), acct: w.accts[i], seen: map[string]bool{}, online: true}
		c.peerId = "peer-" + c.name
		c.svc = pubsub.New(pubsub.Deps{Membership: psMembership{w}, Peers: psPeers{w, c}, Config: cfg})
		c.a = new(app.App)
		c.a.Register(accounttest.NewWithAcc(c.acct.keys)).Register(c.svc)
		// engines start at different instants so that their periodic timers never fire at the same fake
		// instant (goroutines woken by one clock step would run in parallel, outside the scheduler's order)
		time.Sleep(7 * time.Millisecond)
		must(c.a.Start(context.Background()))
		w.clients = append(w.clients, c)
	}
	synctest.Wait()
	sch.Off.Store(false)
	w.hmu.Lock()
	defer func() {
		w.hmu.Unlock()
		sch.ReleaseAll()
		for _, c := range w.clients {
			_ = c.a.Close(context.Background())
		}
		_ = w.nodeApp.Close(context.Background())
	}()

	rawOpen := func() []*psStream { // harness-played remotes with an idle reader
		var l []*psStream
		for _, x := range w.nodeStreams() {
			if x.peerEnd == nil && !x.eof && !x.closed {
				l = append(l, x)
			}
		}
		return l
	}
	runnable := func() []string {
		var out []string
		for _, n := range w.parked() {
			pt, _ := sch.ParkedPoint(n)
			if strings.HasPrefix(pt, "recv:") {
				x := w.stream(pt[5:])
				if x != nil && len(x.inbox) == 0 && !x.eof && !x.closed && !w.teardown {
					continue
				}
			}
			out = append(out, n)
		}
		return out
	}
	grant := func(name string) {
		pt, _ := sch.ParkedPoint(name)
		w.pre(name, pt)
		if r.Aborted() {
			return
		}
		w.hmu.Unlock()
		sch.Grant(name)
		w.hmu.Lock()
		if r.Aborted() {
			return
		}
		// a client reader or API task finished a region: its handler calls are exact
		if strings.HasPrefix(pt, "recv:") {
			if x := w.stream(pt[5:]); x != nil && x.owner != "node" {
				w.checkCalls(w.client(x.owner), "after a received frame")
			}
		}
		for _, c := range w.clients {
			if len(c.calls) > 0 {
				w.checkCalls(c, "outside of any delivery")
			}
		}
		w.checkNode("after " + name + "@" + pt)
	}
	steps := s.Range("steps", 100, 700)
	for i := 0; i < steps && !r.Aborted(); i++ {
		run := runnable()
		raws := rawOpen()
		var idleRaw []*psStream
		for _, x := range raws {
			if len(x.inbox) == 0 {
				idleRaw = append(idleRaw, x)
			}
		}
		nr := 0
		if len(run) > 0 {
			nr = 1
		}
		wOpen := 3
		if len(w.nodeStreams()) >= 7 {
			wOpen = 0
		}
		act := s.Weighted("action", []int{90 * nr, wOpen, 12 * min1(len(idleRaw)), 1 * min1(len(raws)), 1, 1, 6, 1, 3, 1})
		switch act {
		case 0:
			grant(run[s.Choose("sched", len(run))])
		case 1: // a remote opens a stream to the node
			var a *psAcct
			peerId := fmt.Sprintf("p%d", 1+s.Choose("peer", 4))
			k := s.Weighted("stream-account", []int{3, 3, 2, 1, 2 * min1(len(w.nodes))})
			switch k {
			case 0, 1, 2:
				a = w.accts[k]
			case 3:
				r.Fault("unverified-stream")
			case 4:
				a = w.nodes[s.Choose("which-node", len(w.nodes))]
				peerId = a.name
			}
			x := w.newStream("node", peerId, a)
			w.ev("open", "%s peer=%s account=%s", x.nm, peerId, acctName(a))
			w.serve(x)
		case 2: // a frame arrives on a harness-played stream
			x := idleRaw[s.Choose("raw", len(idleRaw))]
			w.injectNodeFrame(x)
		case 3: // the remote closes
			x := raws[s.Choose("raw-close", len(raws))]
			x.eof = true
			r.Fault("remote-close")
			w.ev("remote-close", "%s", x.nm)
		case 4: // the node evicts / revalidates / closes a space
			w.opN++
			name := fmt.Sprintf("op-%d", w.opN)
			sp := psSpaces[s.Choose("op-space", 2)]
			switch s.Choose("node-op", 3) {
			case 0:
				a := w.accts[s.Choose("evictee", len(w.accts))]
				w.ev("node-op", "%s EvictMember %s %s", name, sp, a.name)
				sch.Go(name, func() {
					w.node.EvictMember(sp, a.keys.SignKey.GetPublic())
				})
				w.ops = append(w.ops, psOp{name: name, kind: "evict", space: sp, acct: a.id})
			case 1:
				w.ev("node-op", "%s RevalidateMembers %s", name, sp)
				sch.Go(name, func() {
					w.node.RevalidateMembers(sp, func(account string) bool { return w.isMember(sp, account) })
				})
				w.ops = append(w.ops, psOp{name: name, kind: "revalidate", space: sp})
			case 2:
				w.ev("node-op", "%s CloseSpace %s", name, sp)
				sch.Go(name, func() { w.node.CloseSpace(sp) })
				w.ops = append(w.ops, psOp{name: name, kind: "close", space: sp})
			}
			r.Fault("node-eviction-or-close")
		case 5: // the ACL changes
			sp := psSpaces[s.Choose("acl-space", 2)]
			a := w.accts[s.Choose("acl-acct", len(w.accts))]
			w.member[sp][a.id] = !w.member[sp][a.id]
			w.ev("acl", "%s member of %s: %v", a.name, sp, w.member[sp][a.id])
		case 6:
			w.clientOp(&subN)
		case 7:
			d := []time.Duration{time.Second, 25 * time.Second, 6 * time.Minute}[s.Choose("clock", 3)]
			w.hmu.Unlock()
			time.Sleep(d)
			synctest.Wait()
			w.hmu.Lock()
			w.ev("clock", "+%v", d)
		case 8:
			w.injectClientFrame()
		case 9: // a write of the node fails
			var cand []*psStream
			for _, x := range w.nodeStreams() {
				if x.inPool && !x.gone && !x.closed {
					cand = append(cand, x)
				}
			}
			if len(cand) > 0 {
				x := cand[s.Choose("fail-stream", len(cand))]
				x.failing = true
				w.ev("arm-write-error", "%s", x.nm)
			}
		}
	}
	// faults stop: everything runnable runs; every expected copy must have been written
	for n := 0; n < 100000 && !r.Aborted(); n++ {
		run := runnable()
		if len(run) == 0 {
			break
		}
		grant(run[s.Choose("sched", len(run))])
	}
	if r.Aborted() {
		return
	}
	for key, m := range w.expect {
		for nm, cnt := range m {
			x := w.stream(nm)
			if cnt > 0 && !x.closed && !x.writeErr && !x.gone {
				w.fail("missing-delivery", "", "%s (peer %s) has a registered pattern matching the publish %s but the copy was never written although the stream is healthy and everything runnable ran", nm, x.remote, key[:8])
			}
		}
	}
	for key := range w.wantFwd {
		for _, n := range w.nodes {
			healthy := true
			for _, x := range w.streams {
				if x.owner == "node" && x.remote == n.name && (x.closed || x.writeErr || x.gone) {
					healthy = false
				}
			}
			if healthy && w.forward[key][n.name] != 1 {
				w.fail("not-forwarded", "", "the client publish %s was accepted but %d copies (want 1) reached the other responsible node %s", key[:8], w.forward[key][n.name], n.name)
			}
		}
	}
	// teardown in a seeded order: subscriptions withdrawn, spaces closed, members evicted, streams closed
	w.teardownAll()
	if r.Aborted() {
		return
	}
	st, _ := pubsub.VerifState(w.node)
	ps := w.mapIds()
	if len(st.Remote) != 0 || len(st.Streams) != 0 || len(ps.Streams) != 0 || len(ps.ByTag) != 0 || len(ps.ByPeer) != 0 {
		w.fail("state-leak", "", "after every stream ended the node still holds tries=%v stream records=%d pool streams=%v tags=%v peers=%v", st.RemoteLen, len(st.Streams), ps.Streams, ps.ByTag, ps.ByPeer)
	}
	for _, c := range w.clients {
		cs, _ := pubsub.VerifState(c.svc)
		if len(cs.Local) != 0 || len(cs.LocalLen) != 0 || len(cs.LocalCap) != 0 || len(cs.Remote) != 0 || len(cs.Streams) != 0 {
			w.fail("state-leak", "client", "%s after closing every space: handlers=%v tries=%v counters=%v serving tries=%v records=%d", c.name, cs.Local, cs.LocalLen, cs.LocalCap, cs.RemoteLen, len(cs.Streams))
		}
	}
	nf := 0
	for _, v := range r.Faults {
		nf += v
	}
	r.Nontriv = r.Probes["copy-delivered"] > 0 && r.Probes["subscription-registered"] > 0
	r.State(core.Mix(0, fmt.Sprint(len(w.streams)), fmt.Sprint(r.Probes["copy-delivered"] > 3), fmt.Sprint(r.Probes["delivered-to-handler"] > 0), fmt.Sprint(nf > 2)))
}

type psOp struct {
	name, kind, space, acct string
}

func min1(x int) int {
	if x > 0 {
		return 1
	}
	return 0
}

func (w *psWorld) opByTask(task string) *psOp {
	for i := range w.ops {
		if w.ops[i].name == task {
			return &w.ops[i]
		}
	}
	return nil
}

// preOp: model effect of a node API call at the point where it takes the engine's lock.
func (w *psWorld) preOp(task, point string) {
	op := w.opByTask(task)
	if op == nil {
		return
	}
	switch point {
	case "pubsub.evictSpaceStreams":
		for _, x := range w.nodeStreams() {
			if x.acct == nil || len(x.reg[op.space]) == 0 {
				continue
			}
			if (op.kind == "evict" && x.acct.id == op.acct) || (op.kind == "revalidate" && !w.isMember(op.space, x.acct.id)) {
				x.dropSpace(op.space)
				w.r.Probe("member-evicted")
			}
		}
	case "pubsub.CloseSpace.serving":
		for _, x := range w.nodeStreams() {
			if len(x.reg[op.space]) > 0 {
				w.r.Probe("space-closed-with-interest")
			}
			x.dropSpace(op.space)
		}
	}
}

func (w *psWorld) injectNodeFrame(x *psStream) {
	s, r := w.s, w.r
	sp := psSpaces[s.Choose("frame-space", 2)]
	push := func(m *pubsubproto.PubSubMessage) {
		b, err := m.MarshalVT()
		must(err)
		x.inbox = append(x.inbox, b)
	}
	isNode := x.acct != nil && w.isNodePeer(x.remote)
	kind := s.Weighted("frame-kind", []int{8, 3, 8, 1})
	if isNode {
		kind = 2
	}
	switch kind {
	case 0: // subscribe
		sub := &pubsubproto.Subscribe{SpaceId: sp}
		switch s.Weighted("sub-kind", []int{10, 2, 1, 1}) {
		case 0:
			n := 1 + s.Choose("npat", 3)
			for i := 0; i < n; i++ {
				sub.Topics = append(sub.Topics, w.genSegs(true, true))
			}
		case 1:
			sub.Topics = []string{w.genSegs(true, false)}
			r.Fault("invalid-pattern")
		case 2:
			sub.SpaceId = []string{"", "s/x"}[s.Choose("bad-space", 2)]
			sub.Topics = []string{w.genSegs(true, true)}
			r.Fault("invalid-space-id")
		case 3:
			sub.SpaceId = "sX"
			sub.Topics = []string{w.genSegs(true, true)}
		}
		w.ev("inject", "%s subscribe %s %q", x.nm, sub.SpaceId, sub.Topics)
		push(&pubsubproto.PubSubMessage{Content: &pubsubproto.PubSubMessage_Subscribe{Subscribe: sub}})
	case 1: // unsubscribe
		un := &pubsubproto.Unsubscribe{SpaceId: sp}
		var have []string
		for p := range x.reg[sp] {
			have = append(have, p)
		}
		w.symSort(have)
		switch s.Weighted("unsub-kind", []int{4 * min1(len(have)), 2, 1}) {
		case 0:
			un.Topics = []string{have[s.Choose("unsub-pat", len(have))]}
		case 1: // everything of the space
		case 2:
			un.Topics = []string{w.genSegs(true, true)}
		}
		w.ev("inject", "%s unsubscribe %s %q", x.nm, un.SpaceId, un.Topics)
		push(&pubsubproto.PubSubMessage{Content: &pubsubproto.PubSubMessage_Unsubscribe{Unsubscribe: un}})
	case 2: // publish
		author := x.acct
		relayed := false
		if isNode || author == nil || s.Flip("claims-relayed", 0.08) {
			author = w.accts[s.Choose("author", len(w.accts))]
			relayed = isNode || s.Flip("relayed-flag", 0.5)
		}
		k := 0
		if s.Flip("defective", 0.35) {
			k = []int{1, 2, 3, 4, 10, 11, 7}[s.Choose("defect", 7)]
			r.Fault("defective-publish")
		}
		if s.Flip("foreign-space", 0.07) {
			sp = "sX"
		}
		p, what := w.genPublish(author, sp, k)
		p.Relayed = relayed
		w.ev("inject", "%s publish %s %q by %s relayed=%v (%s)", x.nm, p.SpaceId, p.Topic, author.name, relayed, what)
		push(&pubsubproto.PubSubMessage{Content: &pubsubproto.PubSubMessage_Publish{Publish: p}})
	case 3:
		if s.Flip("status", 0.5) {
			push(&pubsubproto.PubSubMessage{Content: &pubsubproto.PubSubMessage_Status{Status: &pubsubproto.Status{SpaceId: sp, Code: pubsubproto.ErrCodes_NotAMember}}})
		} else {
			push(&pubsubproto.PubSubMessage{})
		}
		w.ev("inject", "%s status/empty frame", x.nm)
	}
}

// injectClientFrame: a hostile relay (or LAN peer) writes a publish straight into a client's stream.
func (w *psWorld) injectClientFrame() {
	s, r := w.s, w.r
	var links []*psStream
	for _, c := range w.clients {
		for _, l := range c.links {
			if !l.closed && !l.eof {
				links = append(links, l)
			}
		}
	}
	if len(links) == 0 {
		return
	}
	l := links[s.Choose("link", len(links))]
	if len(w.seenPub) > 0 && s.Flip("replay", 0.35) {
		p := w.seenPub[s.Choose("replayed", len(w.seenPub))]
		l.inbox = append(l.inbox, wrapPub(p))
		r.Fault("replayed-publish")
		w.ev("inject", "%s (%s) replay of %q", l.nm, l.owner, p.Topic)
		return
	}
	// a forgery that borrows the id of a genuine message still on its way to the client and overtakes it
	if s.Flip("shadow", 0.2) {
		for i, fb := range l.inbox {
			m := &pubsubproto.PubSubMessage{}
			if m.UnmarshalVT(fb) != nil || m.GetPublish() == nil {
				continue
			}
			g := m.GetPublish()
			f := &pubsubproto.Publish{SpaceId: g.SpaceId, Topic: g.Topic, MsgId: g.MsgId, Payload: append(append([]byte{}, g.Payload...), '?'), Identity: g.Identity,
				Signature: append([]byte{}, g.Signature...), TimestampMilli: g.TimestampMilli}
			if s.Flip("shadow-sig", 0.5) && len(f.Signature) > 0 {
				f.Payload = g.Payload
				f.Signature[0] ^= 1
			}
			l.inbox = append(l.inbox[:i], append([][]byte{wrapPub(f)}, l.inbox[i:]...)...)
			r.Fault("forged-publish")
			w.r.Probe("forgery-with-borrowed-id")
			w.ev("inject", "%s (%s) forgery with the id of the genuine %q ahead of it", l.nm, l.owner, g.Topic)
			return
		}
	}
	author := w.accts[s.Choose("forged-author", len(w.accts))]
	k := s.Choose("forgery", 14)
	p, what := w.genPublish(author, psSpaces[s.Choose("forged-space", 2)], k)
	// make it interesting: aim at a pattern the client listens to
	c := w.client(l.owner)
	if k != 1 && k != 4 && k != 9 && len(c.subs) > 0 && s.Flip("aimed", 0.7) {
		sub := c.subs[s.Choose("aim-sub", len(c.subs))]
		segs := strings.Split(sub.pattern, "/")
		for i, g := range segs {
			if g == "*" || g == ">" {
				segs[i] = "a"
			}
		}
		if t := strings.Join(segs, "/"); psValidTopic(t) && (psOwner(t) == "" || psOwner(t) == author.id) {
			p2 := &pubsubproto.Publish{SpaceId: p.SpaceId, Topic: p.Topic, MsgId: p.MsgId, Payload: p.Payload, TimestampMilli: p.TimestampMilli}
			p2.Topic, p2.SpaceId = t, sub.space
			if k == 12 {
				p2.SpaceId = p.SpaceId
			}
			// re-sign the aimed copy with the same defect class
			p = w.resign(p2, author, k)
		}
	}
	l.inbox = append(l.inbox, wrapPub(p))
	if k == 0 {
		w.ev("inject", "%s (%s) publish %s %q by %s (well-formed, written by the relay)", l.nm, l.owner, p.SpaceId, p.Topic, author.name)
	} else {
		r.Fault("forged-publish")
		w.ev("inject", "%s (%s) publish %s %q by %s (%s)", l.nm, l.owner, p.SpaceId, p.Topic, author.name, what)
	}
}

// resign signs p for author and re-applies the post-signature defect of the given class.
func (w *psWorld) resign(p *pubsubproto.Publish, a *psAcct, kind int) *pubsubproto.Publish {
	space := p.SpaceId
	if kind == 12 { // signed for the other space, claimed for this one
		p.SpaceId = psSpaces[1-indexOf(psSpaces, space)]
	}
	p.Identity = a.ident
	sig, err := a.keys.SignKey.Sign(psSignData(p))
	must(err)
	p.Signature = sig
	switch kind {
	case 7:
		p.Signature[3] ^= 0x40
	case 8:
		p.Payload = append(append([]byte{}, p.Payload...), '!')
	case 10:
		for _, o := range w.accts {
			if o != a {
				p.Identity = o.ident
				break
			}
		}
	case 11:
		p.Identity = nil
	case 12:
		p.SpaceId = space
	case 13:
		p.Identity = p.Identity[:len(p.Identity)-3]
	}
	return p
}

// clientOp: one API call on a client engine, executed as a scheduler task.
func (w *psWorld) clientOp(subN *int) {
	s, r := w.s, w.r
	c := w.clients[s.Choose("client", len(w.clients))]
	sp := psSpaces[s.Choose("capi-space", 2)]
	w.opN++
	name := fmt.Sprintf("capi-%d", w.opN)
	var active []*psSub
	for _, x := range c.subs {
		if x.active {
			active = append(active, x)
		}
	}
	var gotErr error
	wantErr := false
	c.pending = nil
	switch s.Weighted("capi", []int{6, 3 * min1(len(active)), 7, 1, 1, 1}) {
	case 0:
		valid := !s.Flip("bad-pattern", 0.15)
		pat := w.genSegs(true, valid)
		if len(active) > 0 && s.Flip("same-pattern", 0.2) {
			pat = active[s.Choose("dup-of", len(active))].pattern
		}
		*subN++
		sub := &psSub{id: *subN, space: sp, pattern: pat}
		wantErr = !psValidPattern(pat)
		w.ev("client-op", "%s %s Subscribe #%d %s %q", name, c.name, sub.id, sp, pat)
		sch := w.sch
		sch.Go(name, func() {
			un, err := c.svc.Subscribe(sp, pat, func(spaceId, topic string, identity crypto.PubKey, payload []byte) {
				w.hmu.Lock()
				defer w.hmu.Unlock()
				c.calls = append(c.calls, psCall{sub.id, spaceId, topic, identity.Account(), string(payload)})
			})
			gotErr = err
			sub.unsub = un
		})
		w.grantNow(name)
		if gotErr == nil && !wantErr {
			sub.active = true
			c.subs = append(c.subs, sub)
		}
	case 1:
		sub := active[s.Choose("unsub", len(active))]
		w.ev("client-op", "%s %s unsubscribe #%d %s %q", name, c.name, sub.id, sub.space, sub.pattern)
		sub.active = false
		w.sch.Go(name, func() { sub.unsub() })
		w.grantNow(name)
	case 2:
		topic := w.genSegs(false, !s.Flip("bad-topic", 0.1))
		if len(active) > 0 && s.Flip("to-own-pattern", 0.4) {
			segs := strings.Split(active[s.Choose("own-pat", len(active))].pattern, "/")
			for i, g := range segs {
				if g == "*" || g == ">" {
					segs[i] = "b"
				}
			}
			topic = strings.Join(segs, "/")
		}
		if reg := w.registeredAt(sp); len(reg) > 0 && s.Flip("to-registered", 0.4) {
			topic = w.instantiate(reg[s.Choose("to-reg", len(reg))])
		}
		if s.Flip("own-ns", 0.2) {
			topic = "acc/x/" + w.accts[s.Choose("ns-owner", len(w.accts))].id
		}
		w.msgN++
		payload := []byte(fmt.Sprintf("c%d", w.msgN))
		if s.Flip("oversize", 0.05) {
			payload = bytes.Repeat([]byte("y"), psMaxPayload+1)
		}
		wantErr = !psValidTopic(topic) || len(payload) > psMaxPayload || (psValidTopic(topic) && psOwner(topic) != "" && psOwner(topic) != c.acct.id)
		if !wantErr {
			c.pending = w.expectedCalls(c, sp, topic, c.acct.id, string(payload))
			r.Probe("client-published")
		}
		w.ev("client-op", "%s %s Publish %s %q (%d bytes): error expected=%v, %d own handler calls", name, c.name, sp, topic, len(payload), wantErr, len(c.pending))
		w.sch.Go(name, func() { gotErr = c.svc.Publish(context.Background(), sp, topic, payload) })
		w.grantNow(name)
	case 3:
		w.ev("client-op", "%s %s CloseSpace %s", name, c.name, sp)
		for _, x := range c.subs {
			if x.space == sp {
				x.active = false
			}
		}
		w.sch.Go(name, func() { c.svc.CloseSpace(sp) })
		w.grantNow(name)
	case 4:
		w.ev("client-op", "%s %s SyncInterest %s", name, c.name, sp)
		w.sch.Go(name, func() { _ = c.svc.SyncInterest(context.Background(), sp) })
		w.grantNow(name)
	case 5:
		c.online = !c.online
		w.ev("client-op", "%s online=%v", c.name, c.online)
		return
	}
	if w.r.Aborted() {
		return
	}
	if gotErr != nil && !wantErr && errors.Is(gotErr, mb.ErrOverflowed) {
		r.Probe("dial-queue-overflow") // local effects happened, nothing was sent: a transport condition
		gotErr = nil
	}
	if (gotErr != nil) != wantErr {
		w.fail("client-api-verdict", "", "%s %s: returned %v, error expected: %v", name, c.name, gotErr, wantErr)
	}
	w.checkCalls(c, "after "+name)
	w.checkClientState(c, "after "+name)
}

// parked: the parked task names after quiescence; the harness lock is released while waiting (a goroutine
// that needs it would otherwise never become quiescent).
func (w *psWorld) parked() []string {
	w.hmu.Unlock()
	l := w.sch.Parked()
	w.hmu.Lock()
	return l
}

// grantNow runs a freshly created task up to its first scheduling point.
func (w *psWorld) grantNow(name string) {
	w.hmu.Unlock()
	w.sch.Parked() // quiescence: the task is parked at "start"
	w.sch.Grant(name)
	w.hmu.Lock()
}

func (w *psWorld) teardownAll() {
	s, r := w.s, w.r
	runAll := func() {
		for n := 0; n < 100000 && !r.Aborted(); n++ {
			var run []string
			for _, nm := range w.parked() {
				pt, _ := w.sch.ParkedPoint(nm)
				if strings.HasPrefix(pt, "recv:") {
					x := w.stream(pt[5:])
					if x != nil && len(x.inbox) == 0 && !x.eof && !x.closed && !w.teardown {
						continue
					}
				}
				run = append(run, nm)
			}
			if len(run) == 0 {
				return
			}
			nm := run[s.Choose("sched", len(run))]
			pt, _ := w.sch.ParkedPoint(nm)
			w.pre(nm, pt)
			if r.Aborted() {
				return
			}
			w.hmu.Unlock()
			w.sch.Grant(nm)
			w.hmu.Lock()
			for _, c := range w.clients {
				c.calls, c.pending = nil, nil
			}
			if r.Aborted() {
				return
			}
			w.checkNode("teardown " + nm + "@" + pt)
		}
	}
	for _, c := range w.clients {
		for _, sp := range psSpaces {
			if s.Flip("td-close-space", 0.7) {
				w.opN++
				name := fmt.Sprintf("capi-%d", w.opN)
				for _, x := range c.subs {
					if x.space == sp {
						x.active = false
					}
				}
				cc, spc := c, sp
				w.sch.Go(name, func() { cc.svc.CloseSpace(spc) })
				w.ev("teardown", "%s CloseSpace %s", c.name, sp)
			} else {
				for _, x := range c.subs {
					if x.space == sp && x.active {
						x.active = false
						x.unsub()
					}
				}
				w.ev("teardown", "%s unsubscribes everything in %s", c.name, sp)
			}
		}
	}
	runAll()
	for _, c := range w.clients {
		w.checkClientState(c, "after withdrawing every subscription")
		c.online = false
	}
	w.teardown = true
	w.ev("teardown", "every stream ends")
	runAll()
}
