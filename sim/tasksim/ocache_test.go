package tasksim

// C16 — object cache: at most one live instance per id under any interleaving.
// Real code: app/ocache (with simhook yields). Harness-owned: LoadFunc, Object.

import (
	"context"
	"errors"
	"fmt"
	"sort"
	"strings"
	"time"

	"github.com/anyproto/any-sync/app/ocache"
	"github.com/anyproto/any-sync/util/simhook"

	"verif/sim/core"
)

type ocInst struct {
	h          *ocHarness
	n          int
	id         string
	loaded     bool // load returned successfully / added
	closeCalls int
	closed     bool
	closedSeq  int // event seq at which close returned (0 = not yet)
	viaAdd     bool
}

func (o *ocInst) String() string { return fmt.Sprintf("inst%d(%s)", o.n, o.id) }

type ocHarness struct {
	r       *core.Run
	s       *core.Sched
	c       ocache.OCache
	insts   []*ocInst
	loading map[string]int // id -> loads in flight
	seq     int            // global event sequence
	inClose int            // cache.Close calls in progress
	closedC bool           // cache.Close returned
	loadErr error
	// lateLoader: this run's loader sometimes returns its object although the load's context has ended
	lateLoader bool
	// cur: the operation each task is inside (Close calls are attributed to it)
	cur map[string]*ocCur
}

type ocCur struct {
	kind   string
	target *ocInst
}

var errLoad = errors.New("load refused")
var errClose = errors.New("close error")

func (h *ocHarness) ev(kind, format string, a ...any) int {
	h.seq++
	h.r.Event(kind, "%s: %s", h.s.CurrentName(), fmt.Sprintf(format, a...))
	return h.seq
}

func (h *ocHarness) liveOf(id string) []*ocInst {
	var l []*ocInst
	for _, o := range h.insts {
		if o.id == id && o.loaded && !o.closed {
			l = append(l, o)
		}
	}
	return l
}

func (h *ocHarness) load(ctx context.Context, id string) (ocache.Object, error) {
	if l := h.liveOf(id); len(l) > 0 {
		h.r.Fail("load-while-live", "", "load of %s started while %v is live (its Close has not returned)", id, l[0])
	}
	if h.loading[id] > 0 {
		h.r.Fail("concurrent-loads", "", "second load of %s started while one is in flight", id)
	}
	h.loading[id]++
	h.ev("load-start", "%s", id)
	h.s.Park("load:" + id)
	h.loading[id]--
	// outcome
	if ctx.Err() != nil {
		// a loader may honour the cancellation, or may have finished its work as the context ended and return
		// the object all the same: then the cache owns a live object and has to keep or close it
		if !h.lateLoader || !h.r.Src.Flip("load-despite-cancel", 0.5) {
			h.ev("load-end", "%s aborted (ctx)", id)
			return nil, ctx.Err()
		}
		h.r.Fault("load-completes-after-cancel")
	}
	switch h.r.Src.Weighted("loadres", []int{8, 1, 1}) {
	case 1:
		h.ev("load-end", "%s error", id)
		return nil, errLoad
	case 2:
		h.ev("load-end", "%s nil value", id)
		return nil, nil
	}
	o := &ocInst{h: h, n: len(h.insts) + 1, id: id}
	h.insts = append(h.insts, o)
	if l := h.liveOf(id); len(l) > 0 {
		h.r.Fail("two-live", "load", "load of %s returned %v while %v is still live", id, o, l[0])
	}
	o.loaded = true
	h.ev("load-end", "%s -> %v", id, o)
	return o, nil
}

// attribute: a Close or TryClose runs on the goroutine of the operation that causes it; an operation that names
// one instance (RemoveSame) or one id (Remove, TryRemove) must not close anything else.
func (h *ocHarness) attribute(o *ocInst) {
	cur := h.cur[h.s.CurrentName()]
	if cur == nil {
		return
	}
	switch cur.kind {
	case "removesame":
		if cur.target != o {
			h.r.Fail("closed-other-instance", "removesame", "RemoveSame(%v) closes %v, which is not the instance it was given", cur.target, o)
		}
	case "remove", "tryremove":
		if cur.target.id != o.id {
			h.r.Fail("closed-other-instance", cur.kind, "%s(%s) closes %v", cur.kind, cur.target.id, o)
		}
	}
}

func (o *ocInst) Close() error {
	h := o.h
	o.closeCalls++
	if o.closed || o.closeCalls > 1 {
		h.r.Fail("double-close", "", "%v: Close called %d times (closed=%v)", o, o.closeCalls, o.closed)
	}
	h.ev("close-start", "%v", o)
	h.attribute(o)
	h.s.Park("close")
	o.closed = true
	o.closedSeq = h.ev("close-end", "%v", o)
	if h.r.Src.Flip("closeerr", 0.1) {
		return errClose
	}
	return nil
}

func (o *ocInst) TryClose(ttl time.Duration) (bool, error) {
	h := o.h
	if o.closed {
		h.r.Fail("double-close", "tryclose", "%v: TryClose after the instance was closed", o)
	}
	h.ev("tryclose-start", "%v", o)
	h.attribute(o)
	h.s.Park("tryclose")
	v := h.r.Src.Weighted("tryclose", []int{10, 10, 1, 1})
	switch v {
	case 0:
		h.ev("tryclose-end", "%v busy", o)
		return false, nil
	case 2:
		h.r.Fault("tryclose-error")
		h.ev("tryclose-end", "%v busy+error", o)
		return false, errClose
	default:
		o.closeCalls++
		if o.closeCalls > 1 {
			h.r.Fail("double-close", "tryclose", "%v closed twice (TryClose true after Close)", o)
		}
		o.closed = true
		o.closedSeq = h.ev("tryclose-end", "%v closed (err=%v)", o, v == 3)
		if v == 3 {
			h.r.Fault("tryclose-error")
			return true, errClose
		}
		return true, nil
	}
}

type ocOp struct {
	kind string
	id   string
}

var ocOpKinds = []string{"get", "get", "get", "pick", "add", "remove", "removesame", "tryremove", "gc", "close", "dolocked"}

func init() { props["C16"] = runC16 }

func runC16(r *core.Run) {
	s := r.Src
	sch := core.NewSched(r)
	h := &ocHarness{r: r, s: sch, loading: map[string]int{}, cur: map[string]*ocCur{}}
	h.lateLoader = s.Flip("late-loader", 0.4)
	r.SetCfg("late_loader", h.lateLoader)
	simhook.YieldFn = func(p string) { sch.Park(p) }
	simhook.PermFn = func(point string, n int) []int {
		if n < 2 {
			return nil
		}
		p := make([]int, n)
		for i := range p {
			p[i] = i
		}
		for i := n - 1; i > 0; i-- {
			j := s.Choose("sched-perm", i+1)
			p[i], p[j] = p[j], p[i]
		}
		return p
	}
	defer func() { simhook.YieldFn = nil; simhook.PermFn = nil }()
	ttl := time.Minute
	h.c = ocache.New(h.load, ocache.WithTTL(ttl), ocache.WithGCPeriod(0))
	ids := []string{"a", "b"}[:s.Range("nids", 1, 2)]
	long := s.Flip("long", 0.15)
	ntasks := s.Range("ntasks", 2, 4)
	opsPer := s.Range("opsper", 1, 3)
	if long {
		ntasks = s.Range("ntasks", 3, 6)
		opsPer = s.Range("opsper", 8, 30)
	}
	r.SetCfg("ids", len(ids))
	r.SetCfg("tasks", ntasks)
	r.SetCfg("ops_per_task", opsPer)
	type opctx struct {
		cancel context.CancelFunc
		done   bool
		name   string
		task   string
	}
	var ctxs []*opctx
	lastGot := map[string]*ocInst{}
	for t := 0; t < ntasks; t++ {
		name := fmt.Sprintf("T%d", t)
		var ops []ocOp
		for k := 0; k < opsPer; k++ {
			kind := ocOpKinds[s.Choose("opkind", len(ocOpKinds))]
			if kind == "close" && (long || s.Flip("skipclose", 0.5)) {
				kind = "get"
			}
			ops = append(ops, ocOp{kind, ids[s.Choose("opid", len(ids))]})
		}
		sch.Go(name, func() {
			for k, op := range ops {
				if r.Aborted() {
					return
				}
				oc := &opctx{name: fmt.Sprintf("%s.%d", name, k), task: name}
				ctx, cancel := context.WithCancel(context.Background())
				oc.cancel = cancel
				ctxs = append(ctxs, oc)
				h.doOp(ctx, name, op, lastGot)
				oc.done = true
				cancel()
				sch.Park("between-ops")
			}
		})
	}
	kindsSeen := map[string]bool{}
	advanced := 0
	for step := 0; step < 4000 && !r.Aborted(); step++ {
		names := sch.Parked()
		if len(names) == 0 {
			if sch.Live() == 0 {
				break
			}
			// nothing runnable: tasks wait on timers (cache.Close's closeTimeout) or forever
			time.Sleep(11 * time.Second)
			sch.Settle()
			r.Event("clock", "+11s (idle)")
			if len(sch.Parked()) == 0 && sch.Live() > 0 {
				r.Fail("hang", "blocked-forever", "tasks blocked with every harness point released and no context cancelled: %s\nlog tail:\n%s",
					sch.String(), strings.Join(tailStr(r.Log, 25), "\n"))
			}
			continue
		}
		// actions: grant one parked task | cancel a pending op context | advance the clock past the TTL
		w := make([]int, len(names)+2)
		for i := range names {
			w[i] = 10
		}
		var pend []*opctx
		for _, oc := range ctxs {
			if oc.done {
				continue
			}
			// Go's select picks randomly among ready cases: a context is only cancelled while its task
			// is blocked inside the cache (only ctx.Done can wake it) or parked inside the loader (the
			// harness reads ctx.Err() itself) - never while parked at a yield in front of a select.
			if pt, parked := sch.ParkedPoint(oc.task); !parked || strings.HasPrefix(pt, "load:") {
				pend = append(pend, oc)
			}
		}
		if len(pend) > 0 {
			w[len(names)] = 1
		}
		if h.inClose == 0 && advanced < 3 {
			w[len(names)+1] = 1
		}
		a := s.Weighted("sched-action", w)
		switch {
		case a < len(names):
			n, p := sch.Grant(names[a])
			kindsSeen[p] = true
			_ = n
		case a == len(names):
			oc := pend[s.Choose("cancelwhich", len(pend))]
			oc.done = true
			r.Fault("ctx-cancel")
			r.Event("cancel", "context of %s", oc.name)
			oc.cancel()
			sch.Settle()
		default:
			advanced++
			time.Sleep(ttl + time.Second)
			sch.Settle()
			r.Fault("clock-jump")
			r.Event("clock", "+%v", ttl+time.Second)
		}
	}
	if r.Aborted() {
		sch.ReleaseAll()
		return
	}
	// final shutdown: Close the cache (if no task did) and require that nothing stays open
	if !h.closedC {
		sch.Go("Tfinal", func() { h.doOp(context.Background(), "Tfinal", ocOp{"close", ""}, lastGot) })
		for step := 0; step < 2000 && !r.Aborted(); step++ {
			names := sch.Parked()
			if len(names) == 0 {
				if sch.Live() == 0 {
					break
				}
				time.Sleep(11 * time.Second)
				sch.Settle()
				if len(sch.Parked()) == 0 && sch.Live() > 0 {
					r.Fail("hang", "close-blocked", "cache.Close blocked forever: %s", sch.String())
				}
				continue
			}
			sch.Grant(names[s.Choose("sched", len(names))])
		}
	}
	for _, o := range h.insts {
		if o.loaded && !o.closed {
			r.Fail("left-open", "", "%v is still open after the cache has shut down and all operations finished", o)
		}
	}
	if n := h.c.Len(); n != 0 && h.closedC {
		// entries may remain only for failed closes; instances were checked above
		r.Probe("entries-after-close")
	}
	nk := 0
	for range kindsSeen {
		nk++
	}
	r.Nontriv = sch.Steps >= 6 && len(h.insts) >= 1
	r.State(core.HashStrings(r.Kinds))
}

func tailStr(s []string, n int) []string {
	if len(s) > n {
		return s[len(s)-n:]
	}
	return s
}

func (h *ocHarness) doOp(ctx context.Context, task string, op ocOp, lastGot map[string]*ocInst) {
	r := h.r
	c := h.c
	switch op.kind {
	case "get", "pick":
		inv := h.ev(op.kind+"-invoke", "%s", op.id)
		var v ocache.Object
		var err error
		if op.kind == "get" {
			v, err = c.Get(ctx, op.id)
		} else {
			v, err = c.Pick(ctx, op.id)
		}
		if err != nil {
			h.ev(op.kind+"-return", "%s err=%v", op.id, errName(err))
			return
		}
		o, ok := v.(*ocInst)
		if !ok || o == nil {
			r.Fail("bad-value", "", "%s(%s) returned %v with nil error", op.kind, op.id, v)
		}
		h.ev(op.kind+"-return", "%s -> %v", op.id, o)
		if o.id != op.id {
			r.Fail("wrong-instance", "", "%s(%s) returned %v", op.kind, op.id, o)
		}
		if !o.loaded {
			r.Fail("unloaded-instance", "", "%s(%s) returned %v which has not finished loading", op.kind, op.id, o)
		}
		if o.closedSeq != 0 && o.closedSeq < inv {
			r.Fail("stale-after-remove", "", "%s(%s) invoked at seq %d returned %v whose close completed at seq %d", op.kind, op.id, inv, o, o.closedSeq)
		}
		lastGot[task] = o
	case "add":
		o := &ocInst{h: h, n: len(h.insts) + 1, id: op.id, viaAdd: true}
		h.insts = append(h.insts, o)
		h.ev("add-invoke", "%s %v", op.id, o)
		err := c.Add(op.id, o)
		if err == nil {
			if l := h.liveOf(op.id); len(l) > 0 {
				r.Fail("two-live", "add", "Add(%s) succeeded with %v while %v is live", op.id, o, l[0])
			}
			if h.loading[op.id] > 0 {
				r.Fail("two-live", "add-during-load", "Add(%s) succeeded while a load of the id is in flight", op.id)
			}
			o.loaded = true
		}
		h.ev("add-return", "%s err=%v", op.id, errName(err))
	case "remove":
		h.ev("remove-invoke", "%s", op.id)
		h.cur[task] = &ocCur{"remove", &ocInst{id: op.id}}
		ok, err := c.Remove(ctx, op.id)
		delete(h.cur, task)
		h.ev("remove-return", "%s ok=%v err=%v", op.id, ok, errName(err))
	case "removesame":
		o := lastGot[task]
		if o == nil {
			if len(h.insts) == 0 {
				return
			}
			o = h.insts[r.Src.Choose("rsinst", len(h.insts))]
		}
		wasLive := o.loaded && !o.closed
		h.ev("removesame-invoke", "%v", o)
		h.cur[task] = &ocCur{"removesame", o}
		ok, err := c.RemoveSame(ctx, o.id, o)
		delete(h.cur, task)
		h.ev("removesame-return", "%v ok=%v err=%v", o, ok, errName(err))
		if ok && !o.closed {
			r.Fail("remove-not-closed", "removesame", "RemoveSame(%v) returned ok but the instance was not closed", o)
		}
		_ = wasLive
	case "tryremove":
		h.ev("tryremove-invoke", "%s", op.id)
		h.cur[task] = &ocCur{"tryremove", &ocInst{id: op.id}}
		ok, err := c.TryRemove(op.id)
		delete(h.cur, task)
		h.ev("tryremove-return", "%s ok=%v err=%v", op.id, ok, errName(err))
	case "gc":
		h.ev("gc-invoke", "")
		c.GC()
		h.ev("gc-return", "")
	case "close":
		h.ev("cclose-invoke", "")
		h.inClose++
		err := c.Close()
		h.inClose--
		if err == nil {
			h.closedC = true
		}
		h.ev("cclose-return", "err=%v", errName(err))
	case "dolocked":
		h.ev("dolocked-invoke", "%s", op.id)
		ran := false
		err := c.DoLockedIfNotExists(op.id, func() error {
			ran = true
			if l := h.liveOf(op.id); len(l) > 0 {
				r.Fail("dolocked-exists", "", "DoLockedIfNotExists(%s) ran its action while %v is live", op.id, l[0])
			}
			if h.loading[op.id] > 0 {
				r.Fail("dolocked-exists", "loading", "DoLockedIfNotExists(%s) ran its action while a load is in flight", op.id)
			}
			return nil
		})
		h.ev("dolocked-return", "%s ran=%v err=%v", op.id, ran, errName(err))
	}
}

func errName(err error) string {
	if err == nil {
		return "nil"
	}
	switch {
	case errors.Is(err, context.Canceled):
		return "ctx-canceled"
	case errors.Is(err, context.DeadlineExceeded):
		return "deadline"
	case errors.Is(err, ocache.ErrClosed):
		return "closed"
	case errors.Is(err, ocache.ErrExists):
		return "exists"
	case errors.Is(err, ocache.ErrNotExists):
		return "notexists"
	case errors.Is(err, errLoad):
		return "load-refused"
	case errors.Is(err, errClose):
		return "close-error"
	}
	s := err.Error()
	if len(s) > 40 {
		s = s[:40]
	}
	return s
}

var _ = sort.Strings
