// Package simlib holds harness pieces shared by several engines: accounts, space payloads with
// byte-deterministic ACL histories, any-store handling.
package simlib

import (
	"context"
	"fmt"
	"os"
	"sort"
	"time"

	anystore "github.com/anyproto/any-store"

	"github.com/anyproto/any-sync/commonspace/object/accountdata"
	"github.com/anyproto/any-sync/commonspace/object/acl/aclrecordproto"
	"github.com/anyproto/any-sync/commonspace/object/acl/list"
	"github.com/anyproto/any-sync/commonspace/object/acl/recordverifier"
	"github.com/anyproto/any-sync/commonspace/spacepayloads"
	"github.com/anyproto/any-sync/commonspace/spacestorage"
	"github.com/anyproto/any-sync/consensus/consensusproto"
	"github.com/anyproto/any-sync/util/cidutil"
	"github.com/anyproto/any-sync/util/crypto"
)

type Account struct {
	Name string
	Keys *accountdata.AccountKeys
}

func NewAccount(name string) *Account {
	k, err := accountdata.NewRandom()
	if err != nil {
		panic(err)
	}
	return &Account{Name: name, Keys: k}
}

func (a *Account) Pub() crypto.PubKey { return a.Keys.SignKey.GetPublic() }

// Space is a space payload plus an authoritative in-memory ACL (owner's view, full validation)
// through which every further ACL record is produced and checked.
type Space struct {
	Payload   spacestorage.SpaceStorageCreatePayload
	Id        string
	Owner     *Account
	Authority list.AclList
	Records   []*consensusproto.RawRecordWithId // records after the root, in order
}

func NewSpace(owner *Account, replicationKey uint64) *Space {
	masterKey, _, err := crypto.GenerateRandomEd25519KeyPair()
	must(err)
	metaKey, _, err := crypto.GenerateRandomEd25519KeyPair()
	must(err)
	readKey := crypto.NewAES()
	payload, err := spacepayloads.StoragePayloadForSpaceCreate(spacepayloads.SpaceCreatePayload{
		SigningKey:     owner.Keys.SignKey,
		SpaceType:      "sim.space",
		ReplicationKey: replicationKey,
		SpacePayload:   []byte("sim"),
		MasterKey:      masterKey,
		ReadKey:        readKey,
		MetadataKey:    metaKey,
		Metadata:       []byte("owner-meta"),
	})
	must(err)
	st, err := list.NewInMemoryStorage(payload.AclWithId.Id, []*consensusproto.RawRecordWithId{payload.AclWithId})
	must(err)
	auth, err := list.BuildAclListWithIdentity(owner.Keys, st, recordverifier.NewValidateFull())
	must(err)
	return &Space{Payload: payload, Id: payload.SpaceHeaderWithId.Id, Owner: owner, Authority: auth}
}

func must(err error) {
	if err != nil {
		panic(err)
	}
}

// Wrap computes the id of a raw record.
func Wrap(raw *consensusproto.RawRecord) *consensusproto.RawRecordWithId {
	payload, err := raw.MarshalVT()
	must(err)
	id, err := cidutil.NewCidFromBytes(payload)
	must(err)
	return &consensusproto.RawRecordWithId{Payload: payload, Id: id}
}

func (s *Space) accept(raw *consensusproto.RawRecord) *consensusproto.RawRecordWithId {
	rec := Wrap(raw)
	must(s.Authority.AddRawRecord(rec))
	s.Records = append(s.Records, rec)
	return rec
}

// Accept applies a record built elsewhere (e.g. by a joining account) to the authoritative list.
func (s *Space) Accept(raw *consensusproto.RawRecord) (*consensusproto.RawRecordWithId, error) {
	rec := Wrap(raw)
	if err := s.Authority.AddRawRecord(rec); err != nil {
		return nil, err
	}
	s.Records = append(s.Records, rec)
	return rec, nil
}

// Add adds accounts with the given permissions (real builder; byte-deterministic).
func (s *Space) Add(perm list.AclPermissions, accs ...*Account) *consensusproto.RawRecordWithId {
	var adds []list.AccountAdd
	for _, a := range accs {
		adds = append(adds, list.AccountAdd{Identity: a.Pub(), Permissions: perm, Metadata: []byte("meta-" + a.Name)})
	}
	raw, err := s.Authority.RecordBuilder().BuildAccountsAdd(list.AccountsAddPayload{Additions: adds})
	must(err)
	return s.accept(raw)
}

// ChangePerm changes one account's permissions (real builder; byte-deterministic).
func (s *Space) ChangePerm(acc *Account, perm list.AclPermissions) *consensusproto.RawRecordWithId {
	raw, err := s.Authority.RecordBuilder().BuildPermissionChange(list.PermissionChangePayload{Identity: acc.Pub(), Permissions: perm})
	must(err)
	return s.accept(raw)
}

// ChangePermTwice: one record that changes the permission of acc twice (the last one stands).
func (s *Space) ChangePermTwice(acc *Account, first, last list.AclPermissions) *consensusproto.RawRecordWithId {
	raw, err := s.Authority.RecordBuilder().BuildPermissionChanges(list.PermissionChangesPayload{Changes: []list.PermissionChangePayload{
		{Identity: acc.Pub(), Permissions: first}, {Identity: acc.Pub(), Permissions: last}}})
	must(err)
	return s.accept(raw)
}

// Remove removes accounts and rotates the read key. The real builder ranges over a Go map while
// consuming randomness, so its record bytes differ from run to run; this harness builder produces the
// same content in sorted identity order. The record is accepted by the real list under full validation.
func (s *Space) Remove(accs ...*Account) *consensusproto.RawRecordWithId {
	st := s.Authority.AclState()
	removed := map[string]bool{}
	var idents [][]byte
	for _, a := range accs {
		b, err := a.Pub().Marshall()
		must(err)
		idents = append(idents, b)
		removed[string(a.Pub().Storage())] = true
	}
	newRead := crypto.NewAES()
	newMeta, _, err := crypto.GenerateRandomEd25519KeyPair()
	must(err)
	protoKey, err := newRead.Marshall()
	must(err)
	cur := st.CurrentAccounts()
	sort.Slice(cur, func(i, j int) bool { return string(cur[i].PubKey.Storage()) < string(cur[j].PubKey.Storage()) })
	var keys []*aclrecordproto.AclEncryptedReadKey
	for _, as := range cur {
		if removed[string(as.PubKey.Storage())] || as.Permissions.NoPermissions() {
			continue
		}
		pi, err := as.PubKey.Marshall()
		must(err)
		enc, err := as.PubKey.Encrypt(protoKey)
		must(err)
		keys = append(keys, &aclrecordproto.AclEncryptedReadKey{Identity: pi, EncryptedReadKey: enc})
	}
	mkPub, err := newMeta.GetPublic().Marshall()
	must(err)
	mkPriv, err := newMeta.Marshall()
	must(err)
	encPriv, err := newRead.Encrypt(mkPriv)
	must(err)
	curKey, err := st.CurrentReadKey()
	must(err)
	curProto, err := curKey.Marshall()
	must(err)
	encOld, err := newRead.Encrypt(curProto)
	must(err)
	content := &aclrecordproto.AclContentValue{Value: &aclrecordproto.AclContentValue_AccountRemove{AccountRemove: &aclrecordproto.AclAccountRemove{
		Identities: idents,
		ReadKeyChange: &aclrecordproto.AclReadKeyChange{
			AccountKeys: keys, MetadataPubKey: mkPub, EncryptedMetadataPrivKey: encPriv, EncryptedOldReadKey: encOld,
		},
	}}}
	return s.accept(s.SignData(s.Owner, &aclrecordproto.AclData{AclContent: []*aclrecordproto.AclContentValue{content}}, s.Authority.Head().Id))
}

// SignData wraps ACL data into a record signed by acc on top of prevId (no acceptance).
func (s *Space) SignData(acc *Account, data *aclrecordproto.AclData, prevId string) *consensusproto.RawRecord {
	md, err := data.MarshalVT()
	must(err)
	ident, err := acc.Pub().Marshall()
	must(err)
	rec := &consensusproto.Record{PrevId: prevId, Identity: ident, Data: md, Timestamp: time.Now().Unix()}
	mr, err := rec.MarshalVT()
	must(err)
	sig, err := acc.Keys.SignKey.Sign(mr)
	must(err)
	return &consensusproto.RawRecord{Payload: mr, Signature: sig}
}

// ---- any-store ---------------------------------------------------------------------------------

// ScratchDir creates a per-run scratch directory (tmpfs when available).
func ScratchDir(tag string) string {
	base := "/dev/shm"
	if st, err := os.Stat(base); err != nil || !st.IsDir() {
		base = os.TempDir()
	}
	d, err := os.MkdirTemp(base, "vsim-"+tag+"-")
	must(err)
	return d
}

func OpenStore(path string) anystore.DB {
	db, err := anystore.Open(context.Background(), path, &anystore.Config{SQLiteConnectionOptions: map[string]string{"synchronous": "off"}})
	if err != nil {
		panic(fmt.Errorf("open any-store %s: %w", path, err))
	}
	return db
}
