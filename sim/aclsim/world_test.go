// Package aclsim: the ACL record chain under a simulated consensus node, actors with stale views and
// observer replicas (C03 C04 C05).
// Real code: list (record builder, state, content validator, keep-identity partial decoder, both
// storages), recordverifier (both), util/crypto; objecttree for encrypted content in C05.
// Harness-owned: the consensus node (a real fully validating AclList + acceptor signature with a sim
// network key), the network between actors, observers and consensus.
//
// Records built by the real builder are not byte-deterministic across executions of one seed (the
// builder ranges over Go maps while consuming randomness). Nothing here lets control flow depend on
// record bytes or ids: every candidate list is sorted by account name / chain index, logs name
// records by chain index (#k), and mutation positions are taken modulo the actual length.
package aclsim

import (
	"context"
	"fmt"
	"os"
	"path/filepath"
	"sort"
	"strings"
	"testing"

	anystore "github.com/anyproto/any-store"

	"github.com/anyproto/any-sync/commonspace/object/acl/aclrecordproto"
	"github.com/anyproto/any-sync/commonspace/object/acl/list"
	"github.com/anyproto/any-sync/commonspace/object/acl/recordverifier"
	"github.com/anyproto/any-sync/commonspace/headsync/headstorage"
	"github.com/anyproto/any-sync/consensus/consensusproto"
	"github.com/anyproto/any-sync/util/cidutil"
	"github.com/anyproto/any-sync/util/crypto"

	"verif/sim/core"
	"verif/sim/simlib"
)

var props = map[string]core.PropFn{}

func TestSim(t *testing.T) {
	core.QuietLogs()
	core.Main(t, "aclsim", props)
}

var ctxb = context.Background()

func must(err error) {
	if err != nil {
		panic(err)
	}
}

type invite struct {
	seq   int
	key   crypto.PrivKey
	recId string // set when accepted
	open  bool   // anyone-can-join
}

// view is one account's replica of the ACL.
type view struct {
	acc  *simlib.Account
	acl  list.AclList
	upTo int // number of chain records applied after the root
	stuck bool
}

type world struct {
	r     *core.Run
	dir   string
	space *simlib.Space
	net   *simlib.Account // network (acceptor) key
	node  *simlib.Account // identity of the consensus node (not a member)
	accs  []*simlib.Account
	byKey map[string]*simlib.Account // by storage key of the public key
	cons  list.AclList               // consensus: fully validating
	chain []*consensusproto.RawRecordWithId
	index map[string]int // record id -> chain index (root = 0)
	views map[string]*view
	invs  []*invite
	// who authored record k (account name) and a short description
	authors []string
	descs   []string
	byzInviteKeys []crypto.PrivKey
	byzantine     bool // byzantine actors take part (C04)
	reencode      bool // honest records may be re-encoded non-canonically (valid, unusual) before submission
}

func keyOf(p crypto.PubKey) string { return string(p.Storage()) }

func newWorld(r *core.Run, names []string) *world {
	w := &world{r: r, byKey: map[string]*simlib.Account{}, index: map[string]int{}, views: map[string]*view{}}
	w.dir = simlib.ScratchDir("acl")
	w.net = simlib.NewAccount("network")
	w.node = simlib.NewAccount("consensus-node")
	for _, n := range names {
		a := simlib.NewAccount(n)
		w.accs = append(w.accs, a)
		w.byKey[keyOf(a.Pub())] = a
	}
	w.space = simlib.NewSpace(w.accs[0], 0)
	root := w.space.Payload.AclWithId
	w.chain = []*consensusproto.RawRecordWithId{root}
	w.index[root.Id] = 0
	w.authors = []string{w.accs[0].Name}
	w.descs = []string{"root"}
	st, err := list.NewInMemoryStorage(root.Id, []*consensusproto.RawRecordWithId{root})
	must(err)
	w.cons, err = list.BuildAclListWithIdentity(w.node.Keys, st, recordverifier.NewValidateFull())
	must(err)
	for _, a := range w.accs {
		w.views[a.Name] = w.newView(a)
	}
	return w
}

func (w *world) cleanup() { _ = os.RemoveAll(w.dir) }

func (w *world) newView(a *simlib.Account) *view {
	root := w.chain[0]
	st, err := list.NewInMemoryStorage(root.Id, []*consensusproto.RawRecordWithId{root})
	must(err)
	l, err := list.BuildAclListWithIdentity(a.Keys, st, recordverifier.NewValidateFull())
	must(err)
	return &view{acc: a, acl: l}
}

func (w *world) name(p crypto.PubKey) string {
	if p == nil {
		return "<nil>"
	}
	if a, ok := w.byKey[keyOf(p)]; ok {
		return a.Name
	}
	if keyOf(p) == keyOf(w.node.Pub()) {
		return w.node.Name
	}
	return "<unknown key>"
}

func (w *world) rec(id string) string {
	if k, ok := w.index[id]; ok {
		return fmt.Sprintf("#%d", k)
	}
	if id == "" {
		return "#none"
	}
	return "#?"
}

// catchUp applies chain records to a view up to index n.
func (w *world) catchUp(v *view, n int) {
	for v.upTo < n {
		rec := w.chain[v.upTo+1]
		v.acl.Lock()
		err := v.acl.AddRawRecord(rec)
		v.acl.Unlock()
		if err != nil {
			if w.byzantine {
				// a byzantine manager may write garbage ciphertext for a member: that member's client can no
				// longer follow the log (not a privilege-rule matter); it stops acting through the builder
				v.stuck = true
				w.r.Probe("view-stuck-on-garbage-keys")
				return
			}
			w.r.Fail("authentic-record-refused", "view", "view of %s refused authentic chain record #%d (%s): %v", v.acc.Name, v.upTo+1, w.descs[v.upTo+1], err)
		}
		v.upTo++
	}
}

// submit hands a signed raw record to the consensus node: full validation against the current head,
// acceptor signature, append. Returns the chain index or -1.
func (w *world) submit(author *simlib.Account, raw *consensusproto.RawRecord, desc string) (int, error) {
	if w.reencode && !strings.HasPrefix(desc, "byz:") {
		if r2 := w.reencodeRecord(author, raw); r2 != nil {
			raw = r2
			desc += " [identities re-encoded non-canonically]"
		}
	}
	w.cons.Lock()
	defer w.cons.Unlock()
	if err := w.cons.ValidateRawRecord(raw, nil); err != nil {
		return -1, err
	}
	ident, err := w.net.Pub().Marshall()
	must(err)
	sig, err := w.net.Keys.SignKey.Sign(raw.Payload)
	must(err)
	acc := &consensusproto.RawRecord{Payload: raw.Payload, Signature: raw.Signature, AcceptorIdentity: ident, AcceptorSignature: sig, AcceptorTimestamp: 946684800 + int64(len(w.chain))}
	wrapped := simlib.Wrap(acc)
	if err := w.cons.AddRawRecord(wrapped); err != nil {
		return -1, fmt.Errorf("consensus add after successful validation: %w", err)
	}
	w.chain = append(w.chain, wrapped)
	k := len(w.chain) - 1
	w.index[wrapped.Id] = k
	w.authors = append(w.authors, author.Name)
	w.descs = append(w.descs, desc)
	return k, nil
}

// ---- public state digest -----------------------------------------------------------------------

type accDigest struct {
	perm   list.AclPermissions
	status list.AclStatus
}

type digest struct {
	head     int
	owner    string
	accounts map[string]accDigest // by account name; absent = never seen
	invites  map[int]string       // chain index of the invite record -> "type/perm"
	joins    map[int]string       // request record index -> requester
	removes  map[int]string
	keyIds   []int
	curKey   int
	options  string
	private  string // which key generations this identity can read
}

func permName(p list.AclPermissions) string {
	return aclrecordproto.AclUserPermissions(p).String()
}

func (w *world) digestOf(l list.AclList) digest {
	st := l.AclState()
	d := digest{accounts: map[string]accDigest{}, invites: map[int]string{}, joins: map[int]string{}, removes: map[int]string{}}
	d.head = w.idx(l.Head().Id)
	if o, err := st.OwnerPubKey(); err == nil {
		d.owner = w.name(o)
	} else {
		d.owner = "<none>"
	}
	for _, a := range st.CurrentAccounts() {
		d.accounts[w.name(a.PubKey)] = accDigest{a.Permissions, a.Status}
	}
	for _, inv := range st.Invites() {
		d.invites[w.idx(inv.Id)] = fmt.Sprintf("%s/%s", inv.Type.String(), permName(inv.Permissions))
	}
	if jr, err := st.JoinRecords(false); err == nil {
		for _, r := range jr {
			d.joins[w.idx(r.RecordId)] = w.name(r.RequestIdentity)
		}
	}
	for _, r := range st.RemoveRecords() {
		d.removes[w.idx(r.RecordId)] = w.name(r.RequestIdentity)
	}
	var priv []string
	for id, k := range st.Keys() {
		d.keyIds = append(d.keyIds, w.idx(id))
		if k.ReadKey != nil {
			priv = append(priv, fmt.Sprint(w.idx(id)))
		}
	}
	sort.Ints(d.keyIds)
	sort.Strings(priv)
	d.private = strings.Join(priv, ",")
	d.curKey = w.idx(st.CurrentReadKeyId())
	if o := st.CurrentOptions(); o != nil {
		d.options = fmt.Sprintf("deleteRestricted=%v", o.DeleteRestricted)
	}
	return d
}

func (w *world) idx(id string) int {
	if k, ok := w.index[id]; ok {
		return k
	}
	return -1
}

func (d digest) public() string { return fmt.Sprintf("head=#%d ", d.head) + d.shape() }

// shape is the public state without the head position.
func (d digest) shape() string {
	var sb strings.Builder
	fmt.Fprintf(&sb, "owner=%s opts[%s] cur-key=#%d keys=%v accounts{", d.owner, d.options, d.curKey, d.keyIds)
	names := make([]string, 0, len(d.accounts))
	for n := range d.accounts {
		names = append(names, n)
	}
	sort.Strings(names)
	for _, n := range names {
		a := d.accounts[n]
		fmt.Fprintf(&sb, "%s:%s/%d ", n, permName(a.perm), a.status)
	}
	sb.WriteString("} invites{")
	for _, k := range sortedInts(d.invites) {
		fmt.Fprintf(&sb, "#%d:%s ", k, d.invites[k])
	}
	sb.WriteString("} joins{")
	for _, k := range sortedInts(d.joins) {
		fmt.Fprintf(&sb, "#%d:%s ", k, d.joins[k])
	}
	sb.WriteString("} removes{")
	for _, k := range sortedInts(d.removes) {
		fmt.Fprintf(&sb, "#%d:%s ", k, d.removes[k])
	}
	sb.WriteString("}")
	return sb.String()
}

func sortedInts(m map[int]string) []int {
	ks := make([]int, 0, len(m))
	for k := range m {
		ks = append(ks, k)
	}
	sort.Ints(ks)
	return ks
}

// ---- storage helpers -----------------------------------------------------------------------------

type storeKind int

const (
	memStore storeKind = iota
	anyStore
)

type observer struct {
	w        *world
	name     string
	ident    *simlib.Account
	kind     storeKind
	full     bool // fully validating verifier (else acceptor verifier with partial decode)
	acl      list.AclList
	db       anystore.DB
	dir      string
	headIdx  int
}

func (w *world) verifierFor(full bool) recordverifier.AcceptorVerifier {
	if full {
		return recordverifier.NewValidateFull()
	}
	return recordverifier.New(w.net.Pub())
}

func (w *world) newObserver(name string, ident *simlib.Account, kind storeKind, full bool) *observer {
	o := &observer{w: w, name: name, ident: ident, kind: kind, full: full}
	root := w.chain[0]
	var st list.Storage
	var err error
	if kind == memStore {
		st, err = list.NewInMemoryStorage(root.Id, []*consensusproto.RawRecordWithId{root})
		must(err)
	} else {
		o.dir = filepath.Join(w.dir, name)
		must(os.MkdirAll(o.dir, 0o755))
		o.db = simlib.OpenStore(filepath.Join(o.dir, "acl.db"))
		hs, err := headstorage.New(ctxb, o.db)
		must(err)
		st, err = list.CreateStorage(ctxb, root, hs, o.db)
		must(err)
	}
	o.acl, err = list.BuildAclListWithIdentity(ident.Keys, st, w.verifierFor(full))
	must(err)
	return o
}

// reopen rebuilds an any-store observer from its database (restart).
func (o *observer) reopen() {
	if o.kind != anyStore {
		return
	}
	must(o.db.Close())
	o.db = simlib.OpenStore(filepath.Join(o.dir, "acl.db"))
	hs, err := headstorage.New(ctxb, o.db)
	must(err)
	st, err := list.NewStorage(ctxb, o.w.chain[0].Id, hs, o.db)
	if err != nil {
		o.w.r.Fail("reopen-failed", "storage", "%s: opening ACL storage after restart: %v", o.name, err)
	}
	l, err := list.BuildAclListWithIdentity(o.ident.Keys, st, o.w.verifierFor(o.full))
	if err != nil {
		o.w.r.Fail("reopen-failed", "build", "%s: rebuilding the ACL from storage after restart: %v", o.name, err)
	}
	o.acl = l
}

func (o *observer) close() {
	if o.db != nil {
		_ = o.db.Close()
	}
}

// storedIds returns the ids the observer's storage holds, in storage order.
func (o *observer) storedIds() []string {
	hs := o.acl
	_ = hs
	var ids []string
	recs, err := o.acl.RecordsAfter(ctxb, "")
	if err != nil {
		o.w.r.Fail("records-after-failed", "", "%s: RecordsAfter(\"\"): %v", o.name, err)
	}
	for _, r := range recs {
		ids = append(ids, r.Id)
	}
	return ids
}

var _ = cidutil.VerifyCid

// reencodeRecord: a client with another protobuf encoder may write the identities inside a rotation
// with an explicit zero key-type field (08 00 12 20 <key> instead of 12 20 <key>): semantically the
// same key, valid signatures (re-signed by the author). Returns nil when the record has no rotation.
func (w *world) reencodeRecord(author *simlib.Account, raw *consensusproto.RawRecord) *consensusproto.RawRecord {
	rec := &consensusproto.Record{}
	if rec.UnmarshalVT(raw.Payload) != nil {
		return nil
	}
	data := &aclrecordproto.AclData{}
	if data.UnmarshalVT(rec.Data) != nil {
		return nil
	}
	touched := false
	for _, c := range data.AclContent {
		var rk *aclrecordproto.AclReadKeyChange
		if c.GetReadKeyChange() != nil {
			rk = c.GetReadKeyChange()
		} else if c.GetAccountRemove() != nil {
			rk = c.GetAccountRemove().ReadKeyChange
		}
		if rk == nil {
			continue
		}
		for _, k := range rk.AccountKeys {
			if len(k.Identity) > 0 && k.Identity[0] != 0x08 && w.r.Src.Flip("reencode-entry", 0.6) {
				k.Identity = append([]byte{0x08, 0x00}, k.Identity...)
				touched = true
			}
		}
	}
	if !touched {
		return nil
	}
	w.r.Probe("record-reencoded")
	return w.space.SignData(author, data, rec.PrevId)
}
