package aclsim

import (
	"fmt"
	"sort"

	"github.com/anyproto/any-sync/commonspace/object/acl/aclrecordproto"
	"github.com/anyproto/any-sync/commonspace/object/acl/list"
	"github.com/anyproto/any-sync/commonspace/object/acl/recordverifier"
	"github.com/anyproto/any-sync/consensus/consensusproto"
	"github.com/anyproto/any-sync/util/crypto"

	"verif/sim/core"
	"verif/sim/simlib"
)

// C04 — ACL privilege rules cannot be bypassed by any constructible record.
// Honest actors (real builder, stale views) and byzantine actors (AclData assembled directly from the
// protobuf types, correctly signed with their own key, submitted to the fully validating consensus
// list) produce the reachable states; the oracle is a set of delta invariants over the public state
// before/after every accepted record, written from the property text, independent of validator.go.

func init() { props["C04"] = runC04 }

var accountNames = []string{"owner", "amy", "bob", "cat", "dan", "eve", "fay", "gus"}

// the six defined levels plus values outside the enum (the wire type is an open int32)
var allPerms = []aclrecordproto.AclUserPermissions{
	aclrecordproto.AclUserPermissions_None, aclrecordproto.AclUserPermissions_Owner, aclrecordproto.AclUserPermissions_Admin,
	aclrecordproto.AclUserPermissions_Writer, aclrecordproto.AclUserPermissions_Reader, aclrecordproto.AclUserPermissions_Guest,
	-1, 6, 1000,
}

func (w *world) anyPerm(label string) aclrecordproto.AclUserPermissions {
	return allPerms[w.r.Src.Weighted(label, []int{2, 4, 8, 6, 6, 4, 1, 1, 1})]
}

func (w *world) ident(a *simlib.Account) []byte {
	b, err := a.Pub().Marshall()
	must(err)
	return b
}

// anyId draws from every id that exists: invites, requests, arbitrary records, and a bogus one.
func (w *world) anyId(label string) string {
	s := w.r.Src
	var pool []string
	switch s.Weighted(label+"-kind", []int{4, 4, 2, 1}) {
	case 0:
		pool = w.liveInviteIds()
	case 1:
		pool = w.requestIds()
	case 2:
		pool = w.allRecordIds()
	default:
		return "bafyreibogusbogusbogusbogusbogusbogusbogusbogusbogusbogusbogus"
	}
	if len(pool) == 0 {
		pool = w.allRecordIds()
	}
	return pool[s.Choose(label, len(pool))]
}

// validReadKeyChange builds a read-key change that covers exactly the accounts/invites the rule demands
// after removing `removed` (so that only privilege checks decide acceptance).
func (w *world) validReadKeyChange(removed map[string]bool, skipRevoked map[string]bool) *aclrecordproto.AclReadKeyChange {
	st := w.cons.AclState()
	nk := newKeys()
	protoKey, err := nk.ReadKey.Marshall()
	must(err)
	accs := st.CurrentAccounts()
	sort.Slice(accs, func(i, j int) bool { return w.name(accs[i].PubKey) < w.name(accs[j].PubKey) })
	ch := &aclrecordproto.AclReadKeyChange{}
	for _, a := range accs {
		if a.Permissions.NoPermissions() || removed[keyOf(a.PubKey)] {
			continue
		}
		id, err := a.PubKey.Marshall()
		must(err)
		enc, err := a.PubKey.Encrypt(protoKey)
		must(err)
		ch.AccountKeys = append(ch.AccountKeys, &aclrecordproto.AclEncryptedReadKey{Identity: id, EncryptedReadKey: enc})
	}
	invs := st.Invites(aclrecordproto.AclInviteType_AnyoneCanJoin)
	sort.Slice(invs, func(i, j int) bool { return w.idx(invs[i].Id) < w.idx(invs[j].Id) })
	for _, inv := range invs {
		if skipRevoked[inv.Id] {
			continue
		}
		id, err := inv.Key.Marshall()
		must(err)
		enc, err := inv.Key.Encrypt(protoKey)
		must(err)
		ch.InviteKeys = append(ch.InviteKeys, &aclrecordproto.AclEncryptedReadKey{Identity: id, EncryptedReadKey: enc})
	}
	ch.MetadataPubKey, err = nk.MetadataKey.GetPublic().Marshall()
	must(err)
	mkp, err := nk.MetadataKey.Marshall()
	must(err)
	ch.EncryptedMetadataPrivKey, err = nk.ReadKey.Encrypt(mkp)
	must(err)
	ch.EncryptedOldReadKey, err = nk.ReadKey.Encrypt([]byte("old-read-key-placeholder"))
	must(err)
	return ch
}

func (w *world) byzContent(author *simlib.Account) (*aclrecordproto.AclContentValue, string) {
	s := w.r.Src
	tgt := w.pickAcc("byz-target")
	switch s.Choose("byz-kind", 16) {
	case 0:
		p := w.anyPerm("perm")
		return &aclrecordproto.AclContentValue{Value: &aclrecordproto.AclContentValue_PermissionChange{PermissionChange: &aclrecordproto.AclAccountPermissionChange{Identity: w.ident(tgt), Permissions: p}}},
			fmt.Sprintf("perm(%s,%s)", tgt.Name, p)
	case 1:
		p, p2 := w.anyPerm("perm"), w.anyPerm("perm2")
		t2 := w.pickAcc("byz-target2")
		return &aclrecordproto.AclContentValue{Value: &aclrecordproto.AclContentValue_PermissionChanges{PermissionChanges: &aclrecordproto.AclAccountPermissionChanges{Changes: []*aclrecordproto.AclAccountPermissionChange{
			{Identity: w.ident(tgt), Permissions: p}, {Identity: w.ident(t2), Permissions: p2}}}}}, fmt.Sprintf("perms(%s:%s,%s:%s)", tgt.Name, p, t2.Name, p2)
	case 2:
		p := w.anyPerm("perm")
		k, _, err := crypto.GenerateRandomEd25519KeyPair()
		must(err)
		kb, _ := k.GetPublic().Marshall()
		t := aclrecordproto.AclInviteType(s.Weighted("invtype", []int{4, 4, 1, 1})) // 2 and 3 are not defined invite types
		var enc []byte
		if s.Flip("withkey", 0.8) {
			enc = []byte("encrypted-read-key")
		}
		w.byzInviteKeys = append(w.byzInviteKeys, k)
		return &aclrecordproto.AclContentValue{Value: &aclrecordproto.AclContentValue_Invite{Invite: &aclrecordproto.AclAccountInvite{InviteKey: kb, InviteType: t, Permissions: p, EncryptedReadKey: enc}}},
			fmt.Sprintf("invite(%s,%s)", t, p)
	case 3:
		id, p := w.anyId("id"), w.anyPerm("perm")
		return &aclrecordproto.AclContentValue{Value: &aclrecordproto.AclContentValue_InviteChange{InviteChange: &aclrecordproto.AclAccountInviteChange{InviteRecordId: id, Permissions: p}}},
			fmt.Sprintf("invite-change(%s,%s)", w.rec(id), p)
	case 4:
		id := w.anyId("id")
		return &aclrecordproto.AclContentValue{Value: &aclrecordproto.AclContentValue_InviteRevoke{InviteRevoke: &aclrecordproto.AclAccountInviteRevoke{InviteRecordId: id}}}, fmt.Sprintf("revoke(%s)", w.rec(id))
	case 5, 6:
		// join request / invite join with a real signature by some known invite key (or garbage)
		id := w.anyId("id")
		who := author
		if s.Flip("other-identity", 0.2) {
			who = tgt
		}
		rawId, err := who.Pub().Raw()
		must(err)
		sig := []byte("garbage-signature")
		keys := w.knownInviteKeys()
		if len(keys) > 0 && s.Flip("real-sig", 0.85) {
			k := keys[s.Choose("invkey", len(keys))]
			sig, err = k.Sign(rawId)
			must(err)
			// mostly use the invite that belongs to this key
			if s.Flip("matching-id", 0.8) {
				if rid, err := w.cons.AclState().GetInviteIdByPrivKey(k); err == nil {
					id = rid
				}
			}
		}
		if s.Choose("joinkind", 2) == 0 {
			return &aclrecordproto.AclContentValue{Value: &aclrecordproto.AclContentValue_RequestJoin{RequestJoin: &aclrecordproto.AclAccountRequestJoin{InviteIdentity: w.ident(who), InviteRecordId: id, InviteIdentitySignature: sig, Metadata: []byte("m")}}},
				fmt.Sprintf("request-join(%s as %s)", w.rec(id), who.Name)
		}
		p := w.anyPerm("perm")
		return &aclrecordproto.AclContentValue{Value: &aclrecordproto.AclContentValue_InviteJoin{InviteJoin: &aclrecordproto.AclAccountInviteJoin{Identity: w.ident(who), InviteRecordId: id, InviteIdentitySignature: sig, Metadata: []byte("m"), EncryptedReadKey: []byte("enc"), Permissions: p}}},
			fmt.Sprintf("invite-join(%s as %s,%s)", w.rec(id), who.Name, p)
	case 7:
		id, p := w.anyId("id"), w.anyPerm("perm")
		who := tgt
		// mostly name the account the request belongs to
		if rr, ok := w.requestOwner(id); ok && s.Flip("matching-identity", 0.8) {
			who = rr
		}
		return &aclrecordproto.AclContentValue{Value: &aclrecordproto.AclContentValue_RequestAccept{RequestAccept: &aclrecordproto.AclAccountRequestAccept{Identity: w.ident(who), RequestRecordId: id, EncryptedReadKey: []byte("enc"), Permissions: p}}},
			fmt.Sprintf("accept(%s for %s,%s)", w.rec(id), who.Name, p)
	case 8:
		id := w.anyId("id")
		return &aclrecordproto.AclContentValue{Value: &aclrecordproto.AclContentValue_RequestDecline{RequestDecline: &aclrecordproto.AclAccountRequestDecline{RequestRecordId: id}}}, fmt.Sprintf("decline(%s)", w.rec(id))
	case 9:
		id := w.anyId("id")
		return &aclrecordproto.AclContentValue{Value: &aclrecordproto.AclContentValue_RequestCancel{RequestCancel: &aclrecordproto.AclAccountRequestCancel{RecordId: id}}}, fmt.Sprintf("cancel(%s)", w.rec(id))
	case 10:
		removed := map[string]bool{keyOf(tgt.Pub()): true}
		ids := [][]byte{w.ident(tgt)}
		desc := "remove(" + tgt.Name
		if s.Flip("two", 0.2) {
			t2 := w.pickAcc("byz-target2")
			if !removed[keyOf(t2.Pub())] {
				removed[keyOf(t2.Pub())] = true
				ids = append(ids, w.ident(t2))
				desc += "," + t2.Name
			}
		}
		return &aclrecordproto.AclContentValue{Value: &aclrecordproto.AclContentValue_AccountRemove{AccountRemove: &aclrecordproto.AclAccountRemove{Identities: ids, ReadKeyChange: w.validReadKeyChange(removed, nil)}}}, desc + ")"
	case 11:
		return &aclrecordproto.AclContentValue{Value: &aclrecordproto.AclContentValue_AccountRequestRemove{AccountRequestRemove: &aclrecordproto.AclAccountRequestRemove{}}}, "request-remove"
	case 12:
		return &aclrecordproto.AclContentValue{Value: &aclrecordproto.AclContentValue_ReadKeyChange{ReadKeyChange: w.validReadKeyChange(nil, nil)}}, "rotate"
	case 13:
		p := w.anyPerm("perm")
		return &aclrecordproto.AclContentValue{Value: &aclrecordproto.AclContentValue_AccountsAdd{AccountsAdd: &aclrecordproto.AclAccountsAdd{Additions: []*aclrecordproto.AclAccountAdd{{Identity: w.ident(tgt), Permissions: p, Metadata: []byte("m"), EncryptedReadKey: []byte("enc")}}}}},
			fmt.Sprintf("add(%s,%s)", tgt.Name, p)
	case 14:
		p := w.anyPerm("perm")
		return &aclrecordproto.AclContentValue{Value: &aclrecordproto.AclContentValue_OwnershipChange{OwnershipChange: &aclrecordproto.AclOwnershipChange{NewOwnerIdentity: w.ident(tgt), OldOwnerPermissions: p}}},
			fmt.Sprintf("ownership(%s,old=%s)", tgt.Name, p)
	default:
		return &aclrecordproto.AclContentValue{Value: &aclrecordproto.AclContentValue_SpaceOptionsChange{SpaceOptionsChange: &aclrecordproto.AclSpaceOptionsChange{Options: &aclrecordproto.AclSpaceOptions{DeleteRestricted: s.Flip("restrict", 0.5)}}}}, "options"
	}
}

func (w *world) knownInviteKeys() []crypto.PrivKey {
	var ks []crypto.PrivKey
	for _, i := range w.invs {
		ks = append(ks, i.key)
	}
	return append(ks, w.byzInviteKeys...)
}

func (w *world) requestOwner(id string) (*simlib.Account, bool) {
	st := w.cons.AclState()
	for _, a := range w.accs {
		if rr, err := st.Record(a.Pub()); err == nil && rr.RecordId == id {
			return a, true
		}
	}
	return nil, false
}

// byzOp: a participant skips the client-side builder.
func (w *world) byzOp() int {
	s := w.r.Src
	author := w.pickActor("byz-author")
	n := 1 + s.Weighted("byz-contents", []int{6, 2, 1})
	data := &aclrecordproto.AclData{}
	desc := ""
	for i := 0; i < n; i++ {
		c, d := w.byzContent(author)
		data.AclContent = append(data.AclContent, c)
		if i > 0 {
			desc += " + "
		}
		desc += d
	}
	raw := w.space.SignData(author, data, w.cons.Head().Id)
	w.r.Fault("byzantine-record") // a participant bypasses the client-side builder
	if n > 1 {
		w.r.Fault("byzantine-multi-content-record")
	}
	k, err := w.submit(author, raw, "byz:"+desc)
	if err != nil {
		w.r.Event("byz-rejected", "%s: %s: %v", author.Name, desc, errShort(err))
		w.r.Count("byz-rejected")
		return -1
	}
	// a byzantine invite that got accepted can be used later like any other
	w.r.Event("byz-accepted", "#%d %s: %s", k, author.Name, desc)
	w.r.Count("byz-accepted")
	return k
}

// ---- delta invariants ----------------------------------------------------------------------------

func isManager(p list.AclPermissions) bool {
	return p == list.AclPermissionsOwner || p == list.AclPermissionsAdmin
}

func rank(p list.AclPermissions) int {
	switch p {
	case list.AclPermissionsReader:
		return 1
	case list.AclPermissionsWriter:
		return 2
	case list.AclPermissionsAdmin:
		return 3
	}
	return 0
}

func owners(d digest) []string {
	var o []string
	for n, a := range d.accounts {
		if a.perm == list.AclPermissionsOwner {
			o = append(o, n)
		}
	}
	sort.Strings(o)
	return o
}

// invPerm parses "type/perm" digests.
func openInvitePerms(w *world, l list.AclList) map[int]list.AclPermissions {
	m := map[int]list.AclPermissions{}
	for _, inv := range l.AclState().Invites(aclrecordproto.AclInviteType_AnyoneCanJoin) {
		m[w.idx(inv.Id)] = inv.Permissions
	}
	return m
}

func allInvitePerms(w *world, l list.AclList) map[int]list.AclPermissions {
	m := map[int]list.AclPermissions{}
	for _, inv := range l.AclState().Invites() {
		m[w.idx(inv.Id)] = inv.Permissions
	}
	return m
}

type preState struct {
	d        digest
	open     map[int]list.AclPermissions
	invPerms map[int]list.AclPermissions
}

func (w *world) pre() preState { return w.preOf(w.cons) }

func (w *world) preOf(l list.AclList) preState {
	return preState{d: w.digestOf(l), open: openInvitePerms(w, l), invPerms: allInvitePerms(w, l)}
}

// judge evaluates accepted chain record k. A single-content record is judged directly. A multi-content
// record is judged as the sequence of its contents: each content is re-submitted as a record of its own
// (same author) to a scratch fully validating list holding the chain before k, and every step is judged
// with the same rules on its own before/after states. If the scratch list refuses a step (contents that
// only validate together), the record is left unjudged and counted.
func (w *world) judge(before preState, k int) {
	contents := w.contentsOf(k)
	author := w.accs[0]
	for _, a := range w.accs {
		if a.Name == w.authors[k] {
			author = a
		}
	}
	if len(contents) <= 1 {
		w.checkDeltaOn(w.cons, before, w.authors[k], w.descs[k], fmt.Sprintf("#%d", k))
		return
	}
	w.r.Probe("multi-content-record")
	st, err := list.NewInMemoryStorage(w.chain[0].Id, w.chain[:k])
	must(err)
	scratch, err := list.BuildAclListWithIdentity(w.node.Keys, st, recordverifier.NewValidateFull())
	must(err)
	var tmp []string
	defer func() {
		for _, id := range tmp {
			delete(w.index, id)
		}
	}()
	for i, c := range contents {
		b := w.preOf(scratch)
		raw := w.space.SignData(author, &aclrecordproto.AclData{AclContent: []*aclrecordproto.AclContentValue{c}}, scratch.Head().Id)
		wrapped := simlib.Wrap(raw)
		if err := scratch.AddRawRecord(wrapped); err != nil {
			w.r.Probe("multi-content-unjudged")
			return
		}
		w.index[wrapped.Id] = -(1000 + len(tmp))
		tmp = append(tmp, wrapped.Id)
		w.checkDeltaOn(scratch, b, w.authors[k], fmt.Sprintf("%s [content %d/%d as its own record]", w.descs[k], i+1, len(contents)), fmt.Sprintf("#%d", k))
	}
	w.r.Probe("multi-content-judged-stepwise")
}

func (w *world) contentsOf(k int) []*aclrecordproto.AclContentValue {
	raw := &consensusproto.RawRecord{}
	must(raw.UnmarshalVT(w.chain[k].Payload))
	rec := &consensusproto.Record{}
	must(rec.UnmarshalVT(raw.Payload))
	data := &aclrecordproto.AclData{}
	must(data.UnmarshalVT(rec.Data))
	return data.AclContent
}

// checkDelta evaluates the privilege rules on the transition caused by accepted record k.
func (w *world) checkDelta(before preState, k int) { w.judge(before, k) }

func (w *world) checkDeltaOn(l list.AclList, before preState, author, desc, k string) {
	after := w.digestOf(l)
	ab := before.d.accounts[author] // zero value = no permissions
	authorPerm := ab.perm
	fail := func(rule, format string, a ...any) {
		w.r.Fail("privilege-rule-broken", rule, "record %s by %s (%s, %s before) was accepted but %s\n before: %s\n after:  %s", k, author, desc, permName(authorPerm),
			fmt.Sprintf(format, a...), before.d.public(), after.public())
	}
	w.r.Count("evals")
	effPerm := authorPerm
	// exactly one owner
	if ob, oa := owners(before.d), owners(after); len(ob) != 1 || len(oa) != 1 {
		fail("one-owner", "the number of owners is %d before and %d after", len(ob), len(oa))
	}
	names := map[string]bool{}
	for n := range before.d.accounts {
		names[n] = true
	}
	for n := range after.accounts {
		names[n] = true
	}
	var sorted []string
	for n := range names {
		sorted = append(sorted, n)
	}
	sort.Strings(sorted)
	for _, n := range sorted {
		b, a := before.d.accounts[n], after.accounts[n]
		if b == a {
			continue
		}
		// Admin role granted or revoked
		if (b.perm == list.AclPermissionsAdmin) != (a.perm == list.AclPermissionsAdmin) && authorPerm != list.AclPermissionsOwner {
			selfJoinViaAdminInvite := n == author && b.perm == list.AclPermissionsNone && hasOpenInviteAtLeast(before.open, list.AclPermissionsAdmin)
			if !selfJoinViaAdminInvite {
				fail("admin-role", "the Admin role of %s changed (%s -> %s) and the author is not the owner", n, permName(b.perm), permName(a.perm))
			}
		}
		// owner role
		if (b.perm == list.AclPermissionsOwner) != (a.perm == list.AclPermissionsOwner) {
			if authorPerm != list.AclPermissionsOwner {
				fail("ownership", "ownership of %s changed (%s -> %s) and the author is not the owner", n, permName(b.perm), permName(a.perm))
			}
			if a.perm == list.AclPermissionsOwner && (b.perm == list.AclPermissionsNone || b.status != list.StatusActive) {
				fail("ownership", "new owner %s was not an active member (%s, status %d)", n, permName(b.perm), b.status)
			}
			if b.perm == list.AclPermissionsOwner && a.perm == list.AclPermissionsNone {
				fail("ownership", "the former owner %s was left without a role", n)
			}
		}
		// guests are never re-permissioned
		if b.perm == list.AclPermissionsGuest && a.perm != list.AclPermissionsGuest && a.perm != list.AclPermissionsNone {
			fail("guest", "guest %s was re-permissioned to %s", n, permName(a.perm))
		}
		if n != author {
			if !isManager(effPerm) {
				fail("non-manager-affects-others", "account %s changed (%s/%d -> %s/%d) and the author is neither owner nor admin", n, permName(b.perm), b.status, permName(a.perm), a.status)
			}
			continue
		}
		// the author's own entry
		if b.perm == list.AclPermissionsNone && a.perm != list.AclPermissionsNone {
			// an outsider gained access by its own record: only through a live open invite, within its permissions
			if !hasOpenInviteAtLeast(before.open, a.perm) {
				fail("outsider-access", "%s gave itself %s and no live anyone-can-join invite allows that (open invites: %v)", n, permName(a.perm), before.open)
			}
		} else if b.perm != a.perm && !isManager(authorPerm) {
			fail("self-repermission", "%s changed its own permissions %s -> %s", n, permName(b.perm), permName(a.perm))
		} else if b.perm != a.perm && authorPerm == list.AclPermissionsAdmin && rank(a.perm) > rank(b.perm) {
			fail("self-repermission", "admin %s raised its own permissions %s -> %s", n, permName(b.perm), permName(a.perm))
		}
	}
	// options
	if before.d.options != after.options && authorPerm != list.AclPermissionsOwner {
		fail("options", "space options changed and the author is not the owner")
	}
	// invites are managed by owner/admins only; Admin-level open invites by the owner only (the
	// permissions field of a request-to-join invite grants nothing: the approver decides)
	afterOpen := openInvitePerms(w, l)
	for _, idx := range unionStr(before.d.invites, after.invites) {
		if before.d.invites[idx] == after.invites[idx] {
			continue
		}
		if !isManager(effPerm) {
			fail("invite-management", "invite #%d changed (%q -> %q) and the author is neither owner nor admin", idx, before.d.invites[idx], after.invites[idx])
		}
		bp, bok := before.open[idx]
		ap, aok := afterOpen[idx]
		if aok && ap == list.AclPermissionsAdmin && !(bok && bp == list.AclPermissionsAdmin) && authorPerm != list.AclPermissionsOwner {
			fail("admin-role", "open invite #%d now grants Admin and the author is not the owner", idx)
		}
		if aok && ap == list.AclPermissionsOwner {
			fail("ownership", "open invite #%d grants Owner", idx)
		}
	}
	// pending requests of other accounts
	for _, m := range []struct {
		name string
		b, a map[int]string
	}{{"join", before.d.joins, after.joins}, {"remove", before.d.removes, after.removes}} {
		for _, idx := range unionStr(m.b, m.a) {
			if m.b[idx] == m.a[idx] {
				continue
			}
			who := m.b[idx]
			if who == "" {
				who = m.a[idx]
			}
			if who != author && !isManager(effPerm) {
				fail("non-manager-affects-others", "%s request #%d of %s changed and the author is neither owner nor admin", m.name, idx, who)
			}
		}
	}
}

func hasOpenInviteAtLeast(open map[int]list.AclPermissions, p list.AclPermissions) bool {
	for _, ip := range open {
		// within the invite's permissions: the same level (whatever it is) or a lower defined one
		if ip == p || (rank(ip) >= rank(p) && rank(p) > 0) {
			return true
		}
		// an invite carrying an undefined level still grants something: the least access (Reader) is within it
		if p == list.AclPermissionsReader && rank(ip) == 0 && ip != list.AclPermissionsNone && ip != list.AclPermissionsGuest && ip != list.AclPermissionsOwner {
			return true
		}
	}
	return false
}

func unionKeys(a, b map[int]list.AclPermissions) []int {
	m := map[int]bool{}
	for k := range a {
		m[k] = true
	}
	for k := range b {
		m[k] = true
	}
	var out []int
	for k := range m {
		out = append(out, k)
	}
	sort.Ints(out)
	return out
}

func unionStr(a, b map[int]string) []int {
	m := map[int]bool{}
	for k := range a {
		m[k] = true
	}
	for k := range b {
		m[k] = true
	}
	var out []int
	for k := range m {
		out = append(out, k)
	}
	sort.Ints(out)
	return out
}

func runC04(r *core.Run) {
	s := r.Src
	n := 5 + s.Choose("naccs", 4)
	w := newWorld(r, accountNames[:n])
	defer w.cleanup()
	w.byzantine = true
	steps := s.Range("steps", 8, 45)
	byzShare := []int{0, 30, 60, 85}[s.Weighted("byzshare", []int{1, 3, 4, 2})]
	r.SetCfg("accounts", n)
	r.SetCfg("steps", steps)
	r.SetCfg("byzantine_percent", byzShare)
	w.bootstrap(func(before preState, k int) { w.checkDelta(before, k) })
	w.template(func(before preState, k int) { w.checkDelta(before, k) })
	for i := 0; i < steps; i++ {
		before := w.pre()
		var k int
		if s.Choose("who", 100) < byzShare {
			k = w.byzOp()
		} else {
			k = w.honestOp()
		}
		if k >= 0 {
			w.checkDelta(before, k)
			r.State(core.Mix(0, w.abstract()))
		}
	}
	r.Nontriv = len(w.chain) >= 4
}

var _ = consensusproto.RawRecord{}

// abstract: the multiset of (permission, status) pairs plus invite and request counts (for the states-reached measure).
func (w *world) abstract() string {
	d := w.digestOf(w.cons)
	var parts []string
	for _, a := range d.accounts {
		parts = append(parts, fmt.Sprintf("%s/%d", permName(a.perm), a.status))
	}
	sort.Strings(parts)
	return fmt.Sprintf("%v inv=%d join=%d rem=%d opts=%s", parts, len(d.invites), len(d.joins), len(d.removes), d.options)
}
