package aclsim

import (
	"fmt"
	"sort"

	"github.com/anyproto/any-sync/commonspace/object/acl/aclrecordproto"
	"github.com/anyproto/any-sync/commonspace/object/acl/list"
	"github.com/anyproto/any-sync/consensus/consensusproto"
	"github.com/anyproto/any-sync/util/crypto"

	"verif/sim/simlib"
)

// honest workload: actors build records with the real client-side builder against their own
// (possibly stale) view and submit them to the consensus node.

var grantable = []list.AclPermissions{list.AclPermissionsReader, list.AclPermissionsWriter, list.AclPermissionsAdmin, list.AclPermissionsGuest}

func (w *world) pickAcc(label string) *simlib.Account {
	return w.accs[w.r.Src.Choose(label, len(w.accs))]
}

// pickActor prefers accounts that can do something: managers 4, other members 2, outsiders 1.
func (w *world) pickActor(label string) *simlib.Account {
	st := w.cons.AclState()
	ws := make([]int, len(w.accs))
	for i, a := range w.accs {
		p := st.Permissions(a.Pub())
		switch {
		case p.CanManageAccounts():
			ws[i] = 4
		case !p.NoPermissions():
			ws[i] = 2
		default:
			ws[i] = 1
		}
	}
	return w.accs[w.r.Src.Weighted(label, ws)]
}

// bootstrap: the owner populates the space through the real builder (a seeded mix of roles, an
// invite or two) so that runs start from states with admins, writers, readers and guests.
func (w *world) bootstrap(judge func(before preState, k int)) {
	s := w.r.Src
	owner := w.accs[0]
	v := w.views[owner.Name]
	n := s.Choose("boot-members", len(w.accs)-1)
	for i := 1; i <= n; i++ {
		t := w.accs[i]
		p := w.pickPerm("boot-perm")
		w.catchUp(v, len(w.chain)-1)
		before := w.pre()
		raw, err := v.acl.RecordBuilder().BuildAccountsAdd(list.AccountsAddPayload{Additions: []list.AccountAdd{{Identity: t.Pub(), Permissions: p, Metadata: []byte("m-" + t.Name)}}})
		if err != nil {
			w.r.Fail("bootstrap-failed", "build", "owner could not add %s as %s: %v", t.Name, permName(p), err)
		}
		k, err := w.submit(owner, raw, fmt.Sprintf("add(%s,%s)", t.Name, permName(p)))
		if err != nil {
			w.r.Fail("bootstrap-failed", "submit", "consensus refused the owner's add of %s as %s: %v", t.Name, permName(p), err)
		}
		w.r.Event("accepted", "#%d owner: add(%s,%s) [bootstrap]", k, t.Name, permName(p))
		if judge != nil {
			judge(before, k)
		}
	}
	for i := 0; i < s.Choose("boot-invites", 3); i++ {
		w.catchUp(v, len(w.chain)-1)
		before := w.pre()
		var res list.InviteResult
		var err error
		open := s.Flip("boot-open", 0.5)
		desc := "invite(request)"
		if open {
			p := w.pickPerm("boot-invperm")
			if p.IsGuest() {
				p = list.AclPermissionsReader
			}
			res, err = v.acl.RecordBuilder().BuildInviteAnyone(p)
			desc = "invite(anyone," + permName(p) + ")"
		} else {
			res, err = v.acl.RecordBuilder().BuildInvite()
		}
		if err != nil {
			w.r.Fail("bootstrap-failed", "invite", "owner could not build %s: %v", desc, err)
		}
		k, err := w.submit(owner, res.InviteRec, desc)
		if err != nil {
			w.r.Fail("bootstrap-failed", "invite-submit", "consensus refused the owner's %s: %v", desc, err)
		}
		w.invs = append(w.invs, &invite{seq: len(w.invs), key: res.InviteKey, recId: w.chain[k].Id, open: open})
		w.r.Event("accepted", "#%d owner: %s [bootstrap]", k, desc)
		if judge != nil {
			judge(before, k)
		}
	}
}

func (w *world) pickPerm(label string) list.AclPermissions {
	return grantable[w.r.Src.Weighted(label, []int{4, 4, 2, 1})]
}

func newKeys() list.ReadKeyChangePayload {
	mk, _, err := crypto.GenerateRandomEd25519KeyPair()
	must(err)
	return list.ReadKeyChangePayload{MetadataKey: mk, ReadKey: crypto.NewAES()}
}

// sorted candidate lists from the consensus state (symbolic order: chain index / account name)
func (w *world) liveInviteIds() []string {
	ids := w.cons.AclState().InviteIds()
	sort.Slice(ids, func(i, j int) bool { return w.idx(ids[i]) < w.idx(ids[j]) })
	return ids
}

func (w *world) requestIds() []string {
	ids := w.cons.AclState().RequestIds()
	sort.Slice(ids, func(i, j int) bool { return w.idx(ids[i]) < w.idx(ids[j]) })
	return ids
}

func (w *world) allRecordIds() []string {
	ids := make([]string, len(w.chain))
	for i, r := range w.chain {
		ids[i] = r.Id
	}
	return ids
}

// template plays one of a few legitimate multi-step histories (real builder, fresh views) that leave
// the ACL in a state random wandering rarely reaches: a member with a stale pending join request, an
// owner who used to be a requester, a declined request of a current member, a removed-and-re-added
// account, a pending leave request of an admin. Every step is judged like any other record.
func (w *world) template(judge func(before preState, k int)) {
	s := w.r.Src
	if len(w.accs) < 4 {
		return
	}
	kind := s.Choose("template", 7)
	if kind == 0 {
		return
	}
	owner := w.accs[0]
	x := w.accs[1+s.Choose("tmpl-x", len(w.accs)-1)]
	do := func(actor *simlib.Account, desc string, build func(b list.AclRecordBuilder) (*consensusproto.RawRecord, error)) bool {
		v := w.views[actor.Name]
		if v.stuck {
			return false
		}
		w.catchUp(v, len(w.chain)-1)
		if v.stuck {
			return false
		}
		before := w.pre()
		raw, err := build(v.acl.RecordBuilder())
		if err != nil || raw == nil {
			w.r.Event("template-step-refused", "%s: %s: %v", actor.Name, desc, errShort(err))
			return false
		}
		k, err := w.submit(actor, raw, desc)
		if err != nil {
			w.r.Event("template-step-rejected", "%s: %s: %v", actor.Name, desc, errShort(err))
			return false
		}
		w.r.Event("accepted", "#%d %s: %s [template %d]", k, actor.Name, desc, kind)
		if judge != nil {
			judge(before, k)
		}
		return true
	}
	cur := func() *simlib.Account { // the current owner
		if o, err := w.cons.AclState().OwnerPubKey(); err == nil {
			if a, ok := w.byKey[keyOf(o)]; ok {
				return a
			}
		}
		return owner
	}
	var invKey crypto.PrivKey
	newInvite := func() bool {
		return do(cur(), "invite(request)", func(b list.AclRecordBuilder) (*consensusproto.RawRecord, error) {
			res, err := b.BuildInvite()
			invKey = res.InviteKey
			return res.InviteRec, err
		})
	}
	requestJoin := func(a *simlib.Account) bool {
		return do(a, "request-join", func(b list.AclRecordBuilder) (*consensusproto.RawRecord, error) {
			return b.BuildRequestJoin(list.RequestJoinPayload{InviteKey: invKey, Metadata: []byte("m")})
		})
	}
	add := func(a *simlib.Account, p list.AclPermissions) bool {
		return do(cur(), fmt.Sprintf("add(%s,%s)", a.Name, permName(p)), func(b list.AclRecordBuilder) (*consensusproto.RawRecord, error) {
			return b.BuildAccountsAdd(list.AccountsAddPayload{Additions: []list.AccountAdd{{Identity: a.Pub(), Permissions: p, Metadata: []byte("m")}}})
		})
	}
	pendingOf := func(a *simlib.Account) string {
		if rr, err := w.cons.AclState().Record(a.Pub()); err == nil {
			return rr.RecordId
		}
		return ""
	}
	if !w.cons.AclState().Permissions(x.Pub()).NoPermissions() {
		// templates start from an outsider
		do(cur(), "remove("+x.Name+")", func(b list.AclRecordBuilder) (*consensusproto.RawRecord, error) {
			return b.BuildAccountRemove(list.AccountRemovePayload{Identities: []crypto.PubKey{x.Pub()}, Change: newKeys()})
		})
	}
	switch kind {
	case 1, 2: // stale join request of a directly added member; optionally it becomes owner and the request is declined
		if !newInvite() || !requestJoin(x) {
			return
		}
		w.invs = append(w.invs, &invite{seq: len(w.invs), key: invKey})
		if !add(x, []list.AclPermissions{list.AclPermissionsWriter, list.AclPermissionsAdmin, list.AclPermissionsGuest}[s.Choose("tmpl-perm", 3)]) {
			return
		}
		if kind == 2 {
			do(cur(), "ownership("+x.Name+")", func(b list.AclRecordBuilder) (*consensusproto.RawRecord, error) {
				return b.BuildOwnershipChange(list.OwnershipChangePayload{NewOwner: x.Pub(), OldOwnerPermissions: list.AclPermissionsAdmin})
			})
		}
		if id := pendingOf(x); id != "" && s.Flip("tmpl-decline", 0.6) {
			// any manager declines the stale request
			mgr := owner
			if kind == 2 {
				mgr = owner // the former owner is an admin now
			}
			do(mgr, "decline("+w.rec(id)+")", func(b list.AclRecordBuilder) (*consensusproto.RawRecord, error) { return b.BuildRequestDecline(id) })
		}
	case 3: // removed and re-added
		add(x, list.AclPermissionsWriter)
		do(cur(), "remove("+x.Name+")", func(b list.AclRecordBuilder) (*consensusproto.RawRecord, error) {
			return b.BuildAccountRemove(list.AccountRemovePayload{Identities: []crypto.PubKey{x.Pub()}, Change: newKeys()})
		})
		if s.Flip("tmpl-readd", 0.7) {
			add(x, w.pickPerm("tmpl-perm"))
		}
	case 4: // an admin asks to leave
		if add(x, list.AclPermissionsAdmin) {
			do(x, "request-remove", func(b list.AclRecordBuilder) (*consensusproto.RawRecord, error) { return b.BuildRequestRemove() })
		}
	case 6: // a pending join request is superseded by a join through an open invite
		if newInvite() && requestJoin(x) {
			w.invs = append(w.invs, &invite{seq: len(w.invs), key: invKey})
			var openKey crypto.PrivKey
			if do(cur(), "invite(anyone)", func(b list.AclRecordBuilder) (*consensusproto.RawRecord, error) {
				res, err := b.BuildInviteAnyone([]list.AclPermissions{list.AclPermissionsReader, list.AclPermissionsWriter}[s.Choose("tmpl-perm", 2)])
				openKey = res.InviteKey
				return res.InviteRec, err
			}) {
				w.invs = append(w.invs, &invite{seq: len(w.invs), key: openKey, open: true, recId: w.chain[len(w.chain)-1].Id})
				do(x, "invite-join", func(b list.AclRecordBuilder) (*consensusproto.RawRecord, error) {
					return b.BuildInviteJoinWithoutApprove(list.InviteJoinPayload{InviteKey: openKey, Metadata: []byte("m")})
				})
			}
		}
	case 5: // request, cancel, request again
		if newInvite() && requestJoin(x) {
			w.invs = append(w.invs, &invite{seq: len(w.invs), key: invKey})
			if id := pendingOf(x); id != "" {
				do(x, "cancel("+w.rec(id)+")", func(b list.AclRecordBuilder) (*consensusproto.RawRecord, error) { return b.BuildRequestCancel(id) })
			}
			if s.Flip("tmpl-again", 0.5) {
				requestJoin(x)
			}
		}
	}
	w.r.Probe(fmt.Sprintf("template-%d", kind))
}

// honestOp performs one honest operation; returns the chain index of the accepted record or -1.
func (w *world) honestOp() int {
	s := w.r.Src
	actor := w.pickActor("actor")
	v := w.views[actor.Name]
	// most actors act on a fresh view; some on a stale one
	target := len(w.chain) - 1
	if s.Flip("stale", 0.15) && target > v.upTo {
		target = v.upTo + s.Choose("lag", target-v.upTo+1)
	}
	if v.stuck {
		return -1
	}
	w.catchUp(v, target)
	if v.stuck {
		return -1
	}
	b := v.acl.RecordBuilder()
	var (
		raw  *consensusproto.RawRecord
		err  error
		desc string
		inv  *invite
	)
	kind := s.Weighted("op", []int{3, 3, 4, 4, 3, 2, 2, 4, 4, 3, 2, 2, 1, 1, 2, 3, 3})
	// a client that does not hold the current read key never builds records that re-encrypt it (the real
	// builder dereferences the missing key: observed nil-pointer panic in buildReadKeyChange, outside the
	// properties checked here, see DESIGN.md)
	if kind == 1 || kind == 4 || kind == 8 || kind == 9 || kind == 15 || kind == 16 {
		if k, err := v.acl.AclState().CurrentReadKey(); err != nil || k == nil {
			w.r.Event("skip", "%s holds no read key: op %d not attempted", actor.Name, kind)
			return -1
		}
	}
	switch kind {
	case 0: // request-to-join invite
		var res list.InviteResult
		res, err = b.BuildInvite()
		raw, desc = res.InviteRec, "invite(request)"
		inv = &invite{key: res.InviteKey}
	case 1: // anyone-can-join invite
		p := w.pickPerm("invperm")
		var res list.InviteResult
		res, err = b.BuildInviteAnyone(p)
		raw, desc = res.InviteRec, "invite(anyone,"+permName(p)+")"
		inv = &invite{key: res.InviteKey, open: true}
	case 2: // request join with a known invite key
		if len(w.invs) == 0 {
			return -1
		}
		i := w.invs[s.Choose("inv", len(w.invs))]
		raw, err = b.BuildRequestJoin(list.RequestJoinPayload{InviteKey: i.key, Metadata: []byte("meta-" + actor.Name)})
		desc = fmt.Sprintf("request-join(inv%d)", i.seq)
	case 3: // join through an open invite
		if len(w.invs) == 0 {
			return -1
		}
		i := w.invs[s.Choose("inv", len(w.invs))]
		p := list.AclPermissionsNone
		if s.Flip("explicit-perm", 0.4) {
			p = w.pickPerm("joinperm")
		}
		raw, err = b.BuildInviteJoinWithoutApprove(list.InviteJoinPayload{InviteKey: i.key, Permissions: p, Metadata: []byte("meta-" + actor.Name)})
		desc = fmt.Sprintf("invite-join(inv%d,%s)", i.seq, permName(p))
	case 4: // accept a pending request
		ids := w.requestIds()
		if len(ids) == 0 {
			return -1
		}
		id := ids[s.Choose("req", len(ids))]
		p := w.pickPerm("acceptperm")
		raw, err = b.BuildRequestAccept(list.RequestAcceptPayload{RequestRecordId: id, Permissions: p})
		desc = fmt.Sprintf("accept(%s,%s)", w.rec(id), permName(p))
	case 5: // decline
		ids := w.requestIds()
		if len(ids) == 0 {
			return -1
		}
		id := ids[s.Choose("req", len(ids))]
		raw, err = b.BuildRequestDecline(id)
		desc = fmt.Sprintf("decline(%s)", w.rec(id))
	case 6: // cancel own request
		ids := w.requestIds()
		if len(ids) == 0 {
			return -1
		}
		id := ids[s.Choose("req", len(ids))]
		raw, err = b.BuildRequestCancel(id)
		desc = fmt.Sprintf("cancel(%s)", w.rec(id))
	case 7: // permission change
		t := w.pickAcc("target")
		p := w.pickPerm("newperm")
		raw, err = b.BuildPermissionChange(list.PermissionChangePayload{Identity: t.Pub(), Permissions: p})
		desc = fmt.Sprintf("perm(%s,%s)", t.Name, permName(p))
	case 8: // direct add
		t := w.pickAcc("target")
		p := w.pickPerm("addperm")
		raw, err = b.BuildAccountsAdd(list.AccountsAddPayload{Additions: []list.AccountAdd{{Identity: t.Pub(), Permissions: p, Metadata: []byte("m-" + t.Name)}}})
		desc = fmt.Sprintf("add(%s,%s)", t.Name, permName(p))
	case 9: // remove with rotation
		t := w.pickAcc("target")
		ids := []crypto.PubKey{t.Pub()}
		desc = fmt.Sprintf("remove(%s", t.Name)
		if s.Flip("two", 0.25) {
			t2 := w.pickAcc("target2")
			ids = append(ids, t2.Pub())
			desc += "," + t2.Name
		}
		desc += ")"
		raw, err = b.BuildAccountRemove(list.AccountRemovePayload{Identities: ids, Change: newKeys()})
	case 10: // revoke an invite
		ids := w.liveInviteIds()
		if len(ids) == 0 {
			return -1
		}
		id := ids[s.Choose("invid", len(ids))]
		raw, err = b.BuildInviteRevoke(id)
		desc = fmt.Sprintf("revoke(%s)", w.rec(id))
	case 11: // change invite permissions
		ids := w.liveInviteIds()
		if len(ids) == 0 {
			return -1
		}
		id := ids[s.Choose("invid", len(ids))]
		p := w.pickPerm("invperm")
		raw, err = b.BuildInviteChange(list.InviteChangePayload{IniviteRecordId: id, Permissions: p})
		desc = fmt.Sprintf("invite-change(%s,%s)", w.rec(id), permName(p))
	case 12: // ownership transfer
		t := w.pickAcc("target")
		p := w.pickPerm("oldownerperm")
		raw, err = b.BuildOwnershipChange(list.OwnershipChangePayload{NewOwner: t.Pub(), OldOwnerPermissions: p})
		desc = fmt.Sprintf("ownership(%s,old=%s)", t.Name, permName(p))
	case 13: // options
		raw, err = b.BuildSpaceOptionsChange(&aclrecordproto.AclSpaceOptions{DeleteRestricted: s.Flip("restrict", 0.5)})
		desc = "options"
	case 14: // request own removal
		raw, err = b.BuildRequestRemove()
		desc = "request-remove"
	case 15: // stand-alone rotation
		raw, err = b.BuildReadKeyChange(newKeys())
		desc = "rotate"
	case 16: // batch
		var p list.BatchRequestPayload
		desc = "batch("
		if s.Flip("b-revoke", 0.5) {
			if ids := w.liveInviteIds(); len(ids) > 0 {
				id := ids[s.Choose("invid", len(ids))]
				p.InviteRevokes = append(p.InviteRevokes, id)
				desc += "revoke" + w.rec(id) + " "
			}
		}
		if s.Flip("b-decline", 0.3) {
			if ids := w.requestIds(); len(ids) > 0 {
				id := ids[s.Choose("req", len(ids))]
				p.Declines = append(p.Declines, id)
				desc += "decline" + w.rec(id) + " "
			}
		}
		if s.Flip("b-rotate", 0.5) {
			k := newKeys()
			p.ReadKeyChange = &k
			desc += "rotate "
		} else {
			p.Removals.Change = newKeys()
			if s.Flip("b-remove", 0.4) {
				t := w.pickAcc("target")
				p.Removals.Identities = []crypto.PubKey{t.Pub()}
				desc += "remove:" + t.Name + " "
			}
			if s.Flip("b-add", 0.5) {
				t := w.pickAcc("target2")
				pm := w.pickPerm("addperm")
				p.Additions = []list.AccountAdd{{Identity: t.Pub(), Permissions: pm, Metadata: []byte("m")}}
				desc += "add:" + t.Name + ":" + permName(pm) + " "
			}
			if s.Flip("b-change", 0.4) {
				t := w.pickAcc("target3")
				pm := w.pickPerm("newperm")
				p.Changes = []list.PermissionChangePayload{{Identity: t.Pub(), Permissions: pm}}
				desc += "perm:" + t.Name + ":" + permName(pm) + " "
			}
			if s.Flip("b-approve", 0.4) {
				if ids := w.requestIds(); len(ids) > 0 {
					id := ids[s.Choose("req", len(ids))]
					pm := w.pickPerm("acceptperm")
					p.Approvals = []list.RequestAcceptPayload{{RequestRecordId: id, Permissions: pm}}
					desc += "accept" + w.rec(id) + ":" + permName(pm) + " "
				}
			}
			if s.Flip("b-invite", 0.3) {
				pm := list.AclPermissionsNone
				if s.Flip("b-open", 0.5) {
					pm = w.pickPerm("invperm")
				}
				p.NewInvites = []list.AclPermissions{pm}
				desc += "invite:" + permName(pm) + " "
			}
		}
		desc += ")"
		var res list.BatchResult
		res, err = b.BuildBatchRequest(p)
		raw = res.Rec
		if err == nil && len(res.Invites) == 1 {
			inv = &invite{key: res.Invites[0], open: len(p.NewInvites) == 1 && !p.NewInvites[0].NoPermissions()}
		}
	}
	if err != nil || raw == nil {
		w.r.Event("build-refused", "%s: %s: %v", actor.Name, desc, errShort(err))
		w.r.Count("builder-refusals")
		return -1
	}
	k, err := w.submit(actor, raw, desc)
	if err != nil {
		w.r.Event("submit-rejected", "%s: %s (view at #%d, head #%d): %v", actor.Name, desc, v.upTo, len(w.chain)-1, errShort(err))
		w.r.Count("consensus-rejections")
		return -1
	}
	if inv != nil {
		inv.seq = len(w.invs)
		inv.recId = w.chain[k].Id
		w.invs = append(w.invs, inv)
	}
	w.r.Event("accepted", "#%d %s: %s", k, actor.Name, desc)
	w.r.Count("accepted-honest")
	return k
}

func errShort(err error) string {
	if err == nil {
		return "nil"
	}
	s := err.Error()
	if len(s) > 90 {
		s = s[:90]
	}
	return s
}
