package aclsim

import (
	"crypto/sha256"
	"errors"
	"fmt"
	"strings"

	"github.com/anyproto/any-sync/commonspace/object/acl/list"
	"github.com/anyproto/any-sync/commonspace/object/acl/recordverifier"
	"github.com/anyproto/any-sync/consensus/consensusproto"
	"github.com/anyproto/any-sync/util/cidutil"

	"github.com/anyproto/any-sync/commonspace/object/acl/aclrecordproto"
	"github.com/anyproto/any-sync/util/crypto"
	"verif/sim/core"
	"verif/sim/simlib"
)

// C03 — the ACL log is a tamper-evident chain with deterministic, atomically updated state.
// An honest chain (real builder, consensus node) is followed by observer replicas in every
// combination of storage (in-memory / any-store), verifier (full validation / acceptor signature with
// the keep-only-ours partial decode) and identity (owner, member, outsider, node), through every
// ingestion path (one record, batches with known records, catch-up served by another observer,
// restart = rebuild from storage) and a faulty network (duplicates, gaps, corruption).

func init() { props["C03"] = runC03 }

type c03 struct {
	*world
	obs  []*observer
	pub  []string                // public digest of the reference (consensus) state after record k
	refs map[string]list.AclList // per observer identity: full validation, in-memory, one at a time
	priv map[string][]string     // private digest of that reference after record k
}

func (c *c03) recordRefs() {
	k := len(c.chain) - 1
	for len(c.pub) <= k {
		c.pub = append(c.pub, "")
	}
	c.pub[k] = c.digestOf(c.cons).shape()
	c.r.State(core.Mix(0, c.abstract()))
	for name, ref := range c.refs {
		for c.idx(ref.Head().Id) < k {
			next := c.chain[c.idx(ref.Head().Id)+1]
			if err := ref.AddRawRecord(next); err != nil {
				c.r.Fail("authentic-record-refused", "reference", "reference list of %s refused chain record #%d (%s): %v", name, c.idx(next.Id), c.descs[c.idx(next.Id)], err)
			}
			c.priv[name] = append(c.priv[name], c.digestOf(ref).private)
		}
	}
}

func payloadHash(b []byte) string {
	h := sha256.Sum256(b)
	return fmt.Sprintf("%x", h[:6])
}

// checkObserver: the observer's storage is a byte-exact prefix of the chain and its state is the
// reference state at its head.
func (c *c03) checkObserver(o *observer, when string) {
	recs, err := o.acl.RecordsAfter(ctxb, "")
	if err != nil {
		c.r.Fail("records-after-failed", "", "%s (%s): %v", o.name, when, err)
	}
	for i, rec := range recs {
		if i >= len(c.chain) || rec.Id != c.chain[i].Id {
			c.r.Fail("foreign-record-stored", "", "%s (%s): storage position %d holds a record that is not chain record #%d", o.name, when, i, i)
		}
		if string(rec.Payload) != string(c.chain[i].Payload) {
			c.r.Fail("served-bytes-differ", "", "%s (%s): RecordsAfter serves bytes for #%d that differ from what consensus emitted", o.name, when, i)
		}
	}
	k := c.idx(o.acl.Head().Id)
	if k != len(recs)-1 || k < 0 {
		c.r.Fail("head-not-last-stored", "", "%s (%s): head is #%d but storage holds %d records", o.name, when, k, len(recs))
	}
	if n := len(o.acl.Records()); n != len(recs) {
		c.r.Fail("head-not-last-stored", "memory", "%s (%s): %d records in memory, %d in storage", o.name, when, n, len(recs))
	}
	d := c.digestOf(o.acl)
	if d.shape() != c.pub[k] {
		c.r.Fail("state-differs-from-reference", "public", "%s (%s, storage=%d full=%v identity=%s) at head #%d:\n got  %s\n want %s", o.name, when, o.kind, o.full, o.ident.Name, k, d.shape(), c.pub[k])
	}
	if want := c.priv[o.ident.Name][k]; d.private != want {
		c.r.Fail("state-differs-from-reference", "private", "%s (%s, storage=%d full=%v identity=%s) at head #%d can read key generations [%s], the reference for this identity [%s]", o.name, when, o.kind, o.full, o.ident.Name, k, d.private, want)
	}
	o.headIdx = k
	c.r.Count("evals")
}

type obsSnap struct {
	head   int
	digest string
	stored string
}

func (c *c03) snap(o *observer) obsSnap {
	d := c.digestOf(o.acl)
	var sb strings.Builder
	recs, _ := o.acl.RecordsAfter(ctxb, "")
	for _, r := range recs {
		sb.WriteString(r.Id + ":" + payloadHash(r.Payload) + ",")
	}
	return obsSnap{head: c.idx(o.acl.Head().Id), digest: d.shape() + "|" + d.private, stored: sb.String()}
}

func (c *c03) unchanged(o *observer, before obsSnap, err error, what string) {
	after := c.snap(o)
	if before != after {
		c.r.Fail("rejected-record-changed-state", "", "%s: %s was refused (%v) but the observer changed\n before: head #%d %s\n after:  head #%d %s", o.name, what, err, before.head, before.digest, after.head, after.digest)
	}
}

// corrupt returns a damaged copy of chain record k that every observer (or, for acceptor damage, every
// acceptor-verifying observer) must refuse.
func (c *c03) corrupt(k int, acceptorOnly *bool) (*consensusproto.RawRecordWithId, string) {
	s := c.r.Src
	orig := c.chain[k]
	raw := &consensusproto.RawRecord{}
	must(raw.UnmarshalVT(orig.Payload))
	flip := func(b []byte) []byte {
		cp := append([]byte{}, b...)
		if len(cp) > 0 {
			cp[s.Choose("pos", 1<<16)%len(cp)] ^= byte(1 << s.Choose("bit", 8))
		}
		return cp
	}
	rewrap := func(r *consensusproto.RawRecord) *consensusproto.RawRecordWithId { return simlib.Wrap(r) }
	switch s.Choose("corruption", 8) {
	case 7:
		// the same bytes under another spelling of the same content id (multibase base32 upper case)
		return &consensusproto.RawRecordWithId{Payload: orig.Payload, Id: strings.ToUpper(orig.Id)}, "bytes kept, id re-spelled in another multibase"
	case 0:
		return &consensusproto.RawRecordWithId{Payload: flip(orig.Payload), Id: orig.Id}, "byte flipped, id kept"
	case 1:
		raw.Payload = flip(raw.Payload)
		return rewrap(raw), "signed payload byte flipped, id recomputed"
	case 2:
		raw.Signature = flip(raw.Signature)
		return rewrap(raw), "author signature byte flipped, id recomputed"
	case 3:
		*acceptorOnly = true
		raw.AcceptorSignature = flip(raw.AcceptorSignature)
		return rewrap(raw), "acceptor signature byte flipped, id recomputed"
	case 4:
		*acceptorOnly = true
		other := simlib.NewAccount("rogue-acceptor")
		raw.AcceptorIdentity, _ = other.Pub().Marshall()
		raw.AcceptorSignature, _ = other.Keys.SignKey.Sign(raw.Payload)
		return rewrap(raw), "acceptor replaced by a key that is not the network key"
	case 5:
		j := s.Choose("otherid", len(c.chain))
		if j == k {
			j = (k + 1) % len(c.chain)
		}
		return &consensusproto.RawRecordWithId{Payload: orig.Payload, Id: c.chain[j].Id}, fmt.Sprintf("bytes kept, id of #%d", j)
	default:
		// everything re-signed (author and network key) but the record points at an older head
		rec := &consensusproto.Record{}
		must(rec.UnmarshalVT(raw.Payload))
		if k < 2 {
			return &consensusproto.RawRecordWithId{Payload: flip(orig.Payload), Id: orig.Id}, "byte flipped, id kept"
		}
		j := s.Choose("oldprev", k-1)
		rec.PrevId = c.chain[j].Id
		var author *simlib.Account
		for _, a := range c.accs {
			if a.Name == c.authors[k] {
				author = a
			}
		}
		p, err := rec.MarshalVT()
		must(err)
		raw.Payload = p
		raw.Signature, _ = author.Keys.SignKey.Sign(p)
		raw.AcceptorSignature, _ = c.net.Keys.SignKey.Sign(p)
		return rewrap(raw), fmt.Sprintf("validly re-signed by author and network key but extending #%d", j)
	}
}

func runC03(r *core.Run) {
	s := r.Src
	n := 5 + s.Choose("naccs", 4)
	c := &c03{world: newWorld(r, accountNames[:n]), refs: map[string]list.AclList{}, priv: map[string][]string{}}
	w := c.world
	defer w.cleanup()
	// observers: identities owner, a member-to-be, the last account (often an outsider), the node
	// any account (its role emerges from the run: owner, member, joiner, removed, outsider) or the node
	idents := append(append([]*simlib.Account{}, w.accs...), w.node)
	nobs := 3 + s.Choose("nobs", 4)
	for i := 0; i < nobs; i++ {
		id := idents[s.Choose("obs-ident", len(idents))]
		kind := storeKind(s.Choose("obs-store", 2))
		full := s.Flip("obs-full", 0.4)
		o := w.newObserver(fmt.Sprintf("obs%d", i), id, kind, full)
		c.obs = append(c.obs, o)
		defer o.close()
		if _, ok := c.refs[id.Name]; !ok {
			st, err := list.NewInMemoryStorage(w.chain[0].Id, w.chain[:1])
			must(err)
			ref, err := list.BuildAclListWithIdentity(id.Keys, st, recordverifier.NewValidateFull())
			must(err)
			c.refs[id.Name] = ref
			c.priv[id.Name] = []string{w.digestOf(ref).private}
		}
	}
	r.SetCfg("observers", nobs)
	c.recordRefs()
	w.bootstrap(func(preState, int) { c.recordRefs() })
	w.reencode = s.Flip("reencode", 0.5)
	w.template(func(preState, int) { c.recordRefs() })
	for _, o := range c.obs {
		c.checkObserver(o, "initial")
	}
	steps := s.Range("steps", 15, 80)
	faultFree := s.Flip("faultfree", 0.1)
	wf := 3
	if faultFree {
		wf = 0
	}
	for i := 0; i < steps; i++ {
		o := c.obs[s.Choose("observer", len(c.obs))]
		head := o.headIdx
		behind := len(w.chain) - 1 - head
		act := s.Weighted("c03-action", []int{8, 6 * min1(behind), 4 * min1(behind), 3 * min1(behind), wf, wf * min1(behind-1), wf, 2})
		switch act {
		case 0: // the chain grows
			if k := w.honestOp(); k >= 0 {
				c.recordRefs()
			}
			continue
		case 1: // next record, alone
			err := o.acl.AddRawRecord(w.chain[head+1])
			if err != nil {
				c.r.Fail("authentic-record-refused", "observer", "%s refused authentic chain record #%d (%s): %v", o.name, head+1, w.descs[head+1], err)
			}
			r.Event("deliver", "%s <- #%d", o.name, head+1)
		case 2: // a batch overlapping what the observer already holds
			from := head + 1 - s.Choose("overlap", minInt(head, 3)+1)
			to := head + 1 + s.Choose("span", behind)
			err := o.acl.AddRawRecords(w.chain[from : to+1])
			if err != nil {
				c.r.Fail("authentic-record-refused", "batch", "%s refused authentic batch #%d..#%d: %v", o.name, from, to, err)
			}
			r.Event("deliver-batch", "%s <- #%d..#%d", o.name, from, to)
			r.Probe("batch-with-known-records")
		case 3: // catch-up served by another observer (raw bytes from its storage)
			var srcs []*observer
			for _, x := range c.obs {
				if x.headIdx > head {
					srcs = append(srcs, x)
				}
			}
			if len(srcs) == 0 {
				continue
			}
			src := srcs[s.Choose("server", len(srcs))]
			recs, err := src.acl.RecordsAfter(ctxb, o.acl.Head().Id)
			if err != nil {
				c.r.Fail("records-after-failed", "serve", "%s could not serve records after #%d: %v", src.name, head, err)
			}
			if err := o.acl.AddRawRecords(recs); err != nil {
				c.r.Fail("authentic-record-refused", "catch-up", "%s refused the catch-up served by %s (full=%v): %v", o.name, src.name, src.full, err)
			}
			if c.idx(o.acl.Head().Id) != src.headIdx {
				c.r.Fail("catch-up-incomplete", "", "%s caught up from %s (head #%d) but is at #%d", o.name, src.name, src.headIdx, c.idx(o.acl.Head().Id))
			}
			r.Event("catch-up", "%s <- %s (#%d..#%d)", o.name, src.name, head+1, src.headIdx)
			if !src.full {
				r.Probe("catch-up-served-by-partial-decoder")
			}
		case 4: // duplicate of a known record
			j := s.Choose("dup", head+1)
			before := c.snap(o)
			err := o.acl.AddRawRecord(w.chain[j])
			if err == nil || !errors.Is(err, list.ErrRecordAlreadyExists) {
				c.r.Fail("duplicate-not-recognised", "", "%s: re-delivery of known record #%d returned %v", o.name, j, err)
			}
			c.unchanged(o, before, err, fmt.Sprintf("duplicate of #%d", j))
			r.Fault("duplicate")
			r.Event("duplicate", "%s <- #%d again", o.name, j)
		case 5: // gap: a record that does not extend the observer's head
			j := head + 2 + s.Choose("gap", behind-1)
			before := c.snap(o)
			err := o.acl.AddRawRecord(w.chain[j])
			if err == nil {
				c.r.Fail("non-extending-record-accepted", "gap", "%s at head #%d accepted chain record #%d", o.name, head, j)
			}
			c.unchanged(o, before, err, fmt.Sprintf("out-of-order #%d", j))
			r.Fault("reorder")
			r.Event("gap", "%s <- #%d while at #%d: %v", o.name, j, head, errShort(err))
		case 6: // corruption in flight (of the next record if there is one, else of any record)
			k := head + 1
			if behind == 0 {
				if len(w.chain) < 2 {
					continue
				}
				k = 1 + s.Choose("victim", len(w.chain)-1)
			}
			inBatch := s.Flip("in-batch", 0.3) && behind > 1
			if inBatch {
				k = head + 2 // the damaged record follows one good record inside a batch
			}
			acceptorOnly := false
			bad, what := c.corrupt(k, &acceptorOnly)
			if acceptorOnly && o.full {
				continue // a fully validating list does not look at acceptor fields: not a forgery for it
			}
			if inBatch && o.full && s.Flip("half-valid-record", 0.4) {
				// a well-signed record on top of the good one whose first content applies and whose second does not:
				// nothing of it may stay in the state
				kp, _, err := crypto.GenerateRandomEd25519KeyPair()
				must(err)
				ik, err := kp.GetPublic().Marshall()
				must(err)
				data := &aclrecordproto.AclData{AclContent: []*aclrecordproto.AclContentValue{
					{Value: &aclrecordproto.AclContentValue_Invite{Invite: &aclrecordproto.AclAccountInvite{InviteKey: ik, InviteType: aclrecordproto.AclInviteType_RequestToJoin}}},
					{Value: &aclrecordproto.AclContentValue_InviteRevoke{InviteRevoke: &aclrecordproto.AclAccountInviteRevoke{InviteRecordId: "no-such-invite"}}},
				}}
				bad = simlib.Wrap(w.space.SignData(w.accs[0], data, w.chain[head+1].Id))
				what = "a first content that applies and a second that does not"
				r.Probe("half-valid-record-in-batch")
			}
			before := c.snap(o)
			var err error
			if inBatch {
				// the good prefix is applied, the damaged record must stop the batch (unless its id is one the
				// observer holds by then: known ids are skipped by design)
				err = o.acl.AddRawRecords([]*consensusproto.RawRecordWithId{w.chain[head+1], bad})
				if known := c.idx(bad.Id) >= 0 && c.idx(bad.Id) <= head+1; err == nil && !known {
					c.r.Fail("forged-record-accepted", "batch", "%s accepted a batch containing #%d with %s", o.name, k, what)
				}
				r.Probe("corrupt-in-batch")
			} else {
				err = o.acl.AddRawRecord(bad)
				if err == nil {
					c.r.Fail("forged-record-accepted", "", "%s (full=%v) accepted #%d with %s", o.name, o.full, k, what)
				}
				c.unchanged(o, before, err, fmt.Sprintf("#%d with %s", k, what))
			}
			r.Fault("corrupt")
			r.Event("corrupt", "%s <- #%d (%s): %v", o.name, k, what, errShort(err))
		case 7: // restart
			if o.kind != anyStore {
				continue
			}
			o.reopen()
			r.Fault("restart")
			r.Event("restart", "%s rebuilt from storage at #%d", o.name, head)
		}
		c.checkObserver(o, "after event")
	}
	// heal: everyone catches up one record at a time; all observers must reach the reference state
	for _, o := range c.obs {
		for o.headIdx < len(w.chain)-1 {
			if err := o.acl.AddRawRecord(w.chain[o.headIdx+1]); err != nil {
				c.r.Fail("authentic-record-refused", "heal", "%s refused authentic chain record #%d: %v", o.name, o.headIdx+1, err)
			}
			o.headIdx++
		}
		c.checkObserver(o, "end")
		if o.kind == anyStore {
			o.reopen()
			c.checkObserver(o, "end, reopened")
		}
	}
	nf := 0
	for _, v := range r.Faults {
		nf += v
	}
	r.Nontriv = len(w.chain) >= 4 && (nf > 0 || faultFree)
}

func min1(x int) int {
	if x > 0 {
		return 1
	}
	return 0
}

func minInt(a, b int) int {
	if a < b {
		return a
	}
	return b
}

var _ = cidutil.VerifyCid
var _ = core.Mix
