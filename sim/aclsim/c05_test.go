package aclsim

import (
	"bytes"
	"errors"
	"fmt"
	"path/filepath"
	"sort"

	anystore "github.com/anyproto/any-store"

	"github.com/anyproto/any-sync/commonspace/object/acl/aclrecordproto"
	"github.com/anyproto/any-sync/commonspace/object/acl/list"
	"github.com/anyproto/any-sync/commonspace/object/acl/recordverifier"
	"github.com/anyproto/any-sync/commonspace/object/tree/objecttree"
	"github.com/anyproto/any-sync/commonspace/object/tree/treechangeproto"
	"github.com/anyproto/any-sync/commonspace/object/tree/treestorage"
	"github.com/anyproto/any-sync/commonspace/spacestorage"
	"github.com/anyproto/any-sync/consensus/consensusproto"
	"github.com/anyproto/any-sync/util/crypto"

	"verif/sim/core"
	"verif/sim/simlib"
)

// C05 — read keys: members can always decrypt, removed accounts never can.
// An honest chain (every membership route of the real builder: request+approve, open invite, direct
// add, remove with rotation, leave request, invite revoke with rotation in one batch, stand-alone
// rotation, re-add, actors on stale views) is interleaved with encrypted edits of one object tree.
// After every accepted record every account rebuilds its private view from the raw log with its own
// keys only, and the oracles below are evaluated.

func init() { props["C05"] = runC05 }

type c05 struct {
	*world
	refs     map[string]list.AclList // eager per-account view: full validation, in-memory, own keys only
	lastHeld map[string]int          // last chain index at which the account held a permission (-1 never)
	genKey   map[int][]byte          // key generation (chain index of the introducing record) -> key bytes as seen by members
	revoked  map[int]int             // invite seq -> chain index of the revoking record
	// tree
	db      anystore.DB
	ss      spacestorage.SpaceStorage
	treeId  string
	plain   map[string][]byte // change id -> original plaintext
	changeGen map[string]int  // change id -> key generation it must be encrypted under
	nEdits  int
	// longLived: the original owner keeps one tree object open for the whole run and is the only editor
	// (an open tree must pick up key rotations that happen while it stays open)
	longLived objecttree.ObjectTree
}

func (c *c05) advanceRefs() {
	k := len(c.chain) - 1
	for _, a := range c.accs {
		ref := c.refs[a.Name]
		for c.idx(ref.Head().Id) < k {
			next := c.chain[c.idx(ref.Head().Id)+1]
			if err := ref.AddRawRecord(next); err != nil {
				c.r.Fail("authentic-record-refused", "own-view", "%s cannot apply authentic chain record #%d (%s) to its own view: %v", a.Name, c.idx(next.Id), c.descs[c.idx(next.Id)], err)
			}
		}
	}
}

// keyCheck: the derivation oracles, evaluated after chain record k was accepted.
func (c *c05) keyCheck() {
	k := len(c.chain) - 1
	cst := c.cons.AclState()
	var gens []int
	for id := range cst.Keys() {
		gens = append(gens, c.idx(id))
	}
	sort.Ints(gens)
	for _, a := range c.accs {
		st := c.refs[a.Name].AclState()
		perm := cst.Permissions(a.Pub())
		member := !perm.NoPermissions()
		if member {
			c.lastHeld[a.Name] = k
		}
		keys := st.Keys()
		for id, ks := range keys {
			g := c.idx(id)
			if member {
				if ks.ReadKey == nil {
					c.r.Fail("member-cannot-derive-key", "", "after #%d (%s): %s holds %s but cannot derive key generation #%d from the log and its own key", k, c.descs[k], a.Name, permName(perm), g)
				}
				raw, _ := ks.ReadKey.Raw()
				if prev, ok := c.genKey[g]; ok && !bytes.Equal(prev, raw) {
					c.r.Fail("members-derive-different-keys", "", "after #%d: %s derives a different key for generation #%d than another member", k, a.Name, g)
				}
				c.genKey[g] = append([]byte{}, raw...)
			} else if g > c.lastHeld[a.Name] && ks.ReadKey != nil {
				c.r.Fail("non-member-derives-key", "", "after #%d (%s): %s holds no permission (last held one at #%d) but derives key generation #%d", k, c.descs[k], a.Name, c.lastHeld[a.Name], g)
			}
		}
		if member {
			// the key generation in force at a record: the last one introduced at or before it
			for ri := 0; ri <= k; ri++ {
				wantGen := 0
				for _, g := range gens {
					if g <= ri {
						wantGen = g
					}
				}
				got, err := st.ReadKeyForAclId(c.chain[ri].Id)
				if err != nil || c.idx(got) != wantGen {
					c.r.Fail("wrong-key-for-record", "", "after #%d: %s resolves the read key in force at record #%d to generation #%d (err %v), it is #%d", k, a.Name, ri, c.idx(got), err, wantGen)
				}
			}
			if len(keys) != len(gens) {
				c.r.Fail("member-cannot-derive-key", "generations", "after #%d: %s sees %d key generations, consensus has %d", k, a.Name, len(keys), len(gens))
			}
			if ck, err := st.CurrentReadKey(); err != nil || ck == nil {
				c.r.Fail("member-cannot-derive-key", "current", "after #%d (%s): %s holds %s but has no current read key: %v", k, c.descs[k], a.Name, permName(perm), err)
			}
		}
		c.r.Count("evals")
	}
}

// rawRecordCheck: the new key of every rotation in record k is encrypted to exactly the accounts that
// keep access and to exactly the open invites that stay live; a revoked invite key opens nothing.
func (c *c05) rawRecordCheck(before preState, k int) {
	contents := c.contentsOf(k)
	active := map[string]bool{}
	for n, a := range before.d.accounts {
		if !a.perm.NoPermissions() {
			active[n] = true
		}
	}
	open := map[int]bool{}
	for idx := range before.open {
		open[idx] = true
	}
	simple := true
	for _, ct := range contents {
		var rk *aclrecordproto.AclReadKeyChange
		removed := map[string]bool{}
		switch {
		case ct.GetAccountRemove() != nil:
			rk = ct.GetAccountRemove().ReadKeyChange
			for _, id := range ct.GetAccountRemove().Identities {
				if pk, err := crypto.UnmarshalEd25519PublicKeyProto(id); err == nil {
					removed[c.name(pk)] = true
				}
			}
		case ct.GetReadKeyChange() != nil:
			rk = ct.GetReadKeyChange()
		case ct.GetInviteRevoke() != nil:
			delete(open, c.idx(ct.GetInviteRevoke().InviteRecordId))
			continue
		case ct.GetRequestDecline() != nil, ct.GetRequestCancel() != nil, ct.GetAccountRequestRemove() != nil, ct.GetSpaceOptionsChange() != nil, ct.GetRequestJoin() != nil:
			continue
		default:
			// membership or invite set changes inside the same record: expected sets would have to follow
			// the record content by content; left to the derivation oracles
			simple = false
		}
		if rk == nil {
			continue
		}
		if !simple {
			c.r.Probe("rotation-in-complex-record-unjudged")
			continue
		}
		var got []string
		for _, ak := range rk.AccountKeys {
			pk, err := crypto.UnmarshalEd25519PublicKeyProto(ak.Identity)
			if err != nil {
				c.r.Fail("rotation-covers-wrong-accounts", "identity", "#%d: undecodable identity in AccountKeys", k)
			}
			got = append(got, c.name(pk))
		}
		sort.Strings(got)
		var want []string
		for n := range active {
			if !removed[n] {
				want = append(want, n)
			}
		}
		sort.Strings(want)
		if fmt.Sprint(got) != fmt.Sprint(want) {
			c.r.Fail("rotation-covers-wrong-accounts", "", "#%d (%s): the new read key is encrypted to %v, the accounts keeping access are %v", k, c.descs[k], got, want)
		}
		for n := range removed {
			delete(active, n)
		}
		// invites
		wantInv := map[string]int{}
		for _, inv := range c.invs {
			if idx := c.idx(inv.recId); open[idx] {
				b, _ := inv.key.GetPublic().Marshall()
				wantInv[string(b)] = inv.seq
			}
		}
		if len(rk.InviteKeys) != len(wantInv) {
			c.r.Fail("rotation-covers-wrong-invites", "count", "#%d (%s): the new read key is encrypted to %d invite keys, %d open invites stay live", k, c.descs[k], len(rk.InviteKeys), len(wantInv))
		}
		for _, ik := range rk.InviteKeys {
			if _, ok := wantInv[string(ik.Identity)]; !ok {
				c.r.Fail("rotation-covers-wrong-invites", "", "#%d (%s): the new read key is encrypted to an invite key that is not a live open invite", k, c.descs[k])
			}
		}
		// no revoked invite key decrypts any entry
		for _, inv := range c.invs {
			at, rev := c.revoked[inv.seq]
			if !rev || at > k {
				continue
			}
			for _, ik := range rk.InviteKeys {
				if _, err := inv.key.Decrypt(ik.EncryptedReadKey); err == nil {
					c.r.Fail("revoked-invite-opens-key", "", "#%d (%s): the key of invite inv%d, revoked at #%d, decrypts an InviteKeys entry of this rotation", k, c.descs[k], inv.seq, at)
				}
			}
		}
		c.r.Probe("rotation-judged")
	}
}

func (c *c05) noteRevocations(before preState, k int) {
	after := openInvitePerms(c.world, c.cons)
	for idx := range before.invPerms {
		if _, still := allInvitePerms(c.world, c.cons)[idx]; !still {
			for _, inv := range c.invs {
				if c.idx(inv.recId) == idx {
					c.revoked[inv.seq] = k
				}
			}
		}
	}
	_ = after
}

// ---- tree ----------------------------------------------------------------------------------------

func (c *c05) setupTree() {
	c.db = simlib.OpenStore(filepath.Join(c.dir, "tree.db"))
	var err error
	c.ss, err = spacestorage.Create(ctxb, c.db, c.space.Payload)
	must(err)
	owner := c.accs[0]
	seed := make([]byte, 32)
	_, _ = c.r.Crypto.Read(seed)
	root, err := objecttree.CreateObjectTreeRoot(objecttree.ObjectTreeCreatePayload{PrivKey: owner.Keys.SignKey, ChangeType: "sim.tree", ChangePayload: []byte("p"),
		SpaceId: c.space.Id, IsEncrypted: true, Seed: seed, Timestamp: 946684800}, c.refs[owner.Name])
	must(err)
	_, err = c.ss.CreateTreeStorage(ctxb, treestorage.TreeStorageCreatePayload{RootRawChange: root, Changes: []*treechangeproto.RawTreeChangeWithId{root}, Heads: []string{root.Id}})
	must(err)
	c.treeId = root.Id
}

func (c *c05) treeFor(a *simlib.Account) (objecttree.ObjectTree, error) {
	st, err := c.ss.TreeStorage(ctxb, c.treeId)
	must(err)
	return objecttree.BuildObjectTree(st, c.refs[a.Name])
}

// edit: a current writer adds encrypted content with its own view of the ACL.
func (c *c05) edit() {
	s := c.r.Src
	cst := c.cons.AclState()
	var writers []*simlib.Account
	for _, a := range c.accs {
		if cst.Permissions(a.Pub()).CanWrite() {
			writers = append(writers, a)
		}
	}
	if len(writers) == 0 {
		return
	}
	a := writers[s.Choose("editor", len(writers))]
	var t objecttree.ObjectTree
	var err error
	if c.longLived != nil {
		a = c.accs[0]
		if !cst.Permissions(a.Pub()).CanWrite() {
			return
		}
		t = c.longLived
		c.r.Probe("edit-through-long-lived-tree")
	} else {
		t, err = c.treeFor(a)
		if err != nil {
			c.r.Fail("writer-cannot-open-tree", "", "%s (writer) cannot build the tree from storage with its own ACL view: %v", a.Name, err)
		}
	}
	c.nEdits++
	marker := []byte(fmt.Sprintf("PLAINTEXT-MARKER-%d-by-%s-0123456789", c.nEdits, a.Name))
	if s.Flip("empty-content", 0.12) {
		// empty content added as encrypted is content like any other: ciphertext under the named key
		marker = []byte{}
		c.r.Probe("empty-encrypted-content")
	}
	t.Lock()
	res, err := t.AddContent(ctxb, objecttree.SignableChangeContent{Data: marker, Key: a.Keys.SignKey, ShouldBeEncrypted: true, Timestamp: int64(946684800 + c.nEdits)})
	t.Unlock()
	if err != nil {
		c.r.Fail("writer-cannot-add", "", "%s (writer, key generation #%d) cannot add encrypted content: %v", a.Name, c.idx(cst.CurrentReadKeyId()), err)
	}
	for _, ch := range res.Added {
		c.plain[ch.Id] = marker
		if len(marker) > 0 && bytes.Contains(ch.RawChange, marker) {
			c.r.Fail("plaintext-leaked", "stored", "change %d by %s: the stored/transmitted bytes contain the plaintext", c.nEdits, a.Name)
		}
		d := &treechangeproto.RawTreeChange{}
		must(d.UnmarshalVT(ch.RawChange))
		tc := &treechangeproto.TreeChange{}
		must(tc.UnmarshalVT(d.Payload))
		g := c.idx(tc.ReadKeyId)
		if want := c.idx(cst.CurrentReadKeyId()); g != want {
			c.r.Fail("encrypted-under-wrong-key", "id", "change %d by %s names key generation #%d, the current generation is #%d", c.nEdits, a.Name, g, want)
		}
		c.changeGen[ch.Id] = g
		// content keys are derived per tree from the space read key of the named generation
		key, err := crypto.NewKeyDeriver(fmt.Sprintf(crypto.AnysyncTreePath, c.treeId)).DeriveKey(c.genKey[g])
		must(err)
		if len(tc.ChangesData) == 0 {
			c.r.Fail("encrypted-under-wrong-key", "no-ciphertext", "change %d by %s names key generation #%d but carries no ciphertext", c.nEdits, a.Name, g)
		}
		pt, err := key.Decrypt(tc.ChangesData)
		if err != nil || !bytes.Equal(pt, marker) {
			c.r.Fail("encrypted-under-wrong-key", "bytes", "change %d by %s does not decrypt to the original under key generation #%d: %v", c.nEdits, a.Name, g, err)
		}
	}
	c.r.Event("edit", "%s adds encrypted change %d under key generation #%d", a.Name, c.nEdits, c.idx(cst.CurrentReadKeyId()))
}

// readCheck: every current member reads every change back; accounts without the key get an error.
func (c *c05) readCheck() {
	if len(c.plain) == 0 {
		return
	}
	cst := c.cons.AclState()
	for _, a := range c.accs {
		member := !cst.Permissions(a.Pub()).NoPermissions()
		t, err := c.treeFor(a)
		if err != nil {
			if member {
				c.r.Fail("member-cannot-read", "open", "%s (%s) cannot open the tree: %v", a.Name, permName(cst.Permissions(a.Pub())), err)
			}
			continue
		}
		got := map[string][]byte{}
		t.Lock()
		err = t.IterateRoot(func(ch *objecttree.Change, decrypted []byte) (any, error) {
			got[ch.Id] = append([]byte{}, decrypted...)
			return struct{}{}, nil
		}, func(ch *objecttree.Change) bool { return true })
		t.Unlock()
		if member {
			if err != nil {
				c.r.Fail("member-cannot-read", "iterate", "%s (%s) cannot iterate the tree: %v", a.Name, permName(cst.Permissions(a.Pub())), err)
			}
			for id, want := range c.plain {
				if !bytes.Equal(got[id], want) {
					c.r.Fail("member-cannot-read", "plaintext", "%s reads change (key generation #%d) as %q, original %q", a.Name, c.changeGen[id], got[id], want)
				}
			}
			c.r.Probe("member-read-back")
		} else {
			// an account must not see plaintext of generations introduced after it lost access
			for id, pt := range got {
				if want, ok := c.plain[id]; ok && len(want) > 0 && bytes.Equal(pt, want) && c.changeGen[id] > c.lastHeld[a.Name] {
					c.r.Fail("non-member-reads-plaintext", "", "%s (no permission since #%d) decrypts a change of key generation #%d", a.Name, c.lastHeld[a.Name], c.changeGen[id])
				}
			}
			if err != nil && errors.Is(err, list.ErrNoReadKey) {
				c.r.Probe("non-member-gets-no-read-key")
			}
		}
	}
}

func (c *c05) missingKeyCheck() {
	root, err := c.ss.TreeStorage(ctxb, c.treeId)
	must(err)
	rc, err := root.Root(ctxb)
	must(err)
	cb := objecttree.NewChangeBuilder(crypto.NewKeyStorage(), rc.RawTreeChangeWithId())
	_, raw, err := cb.Build(objecttree.BuilderContent{TreeHeadIds: []string{c.treeId}, AclHeadId: c.cons.Head().Id, SnapshotBaseId: c.treeId, PrivKey: c.accs[0].Keys.SignKey,
		Content: []byte("PLAINTEXT-MARKER-no-key"), Timestamp: 1})
	if !errors.Is(err, objecttree.ErrMissingEncryptKey) {
		leaked := raw != nil && bytes.Contains(raw.RawChange, []byte("PLAINTEXT-MARKER-no-key"))
		c.r.Fail("plaintext-leaked", "missing-key", "building an encrypted change without a key returned %v (plaintext in output: %v)", err, leaked)
	}
	_, _, err = cb.Build(objecttree.BuilderContent{TreeHeadIds: []string{c.treeId}, AclHeadId: c.cons.Head().Id, SnapshotBaseId: c.treeId, PrivKey: c.accs[0].Keys.SignKey,
		Content: nil, Timestamp: 1})
	if !errors.Is(err, objecttree.ErrMissingEncryptKey) {
		c.r.Fail("plaintext-leaked", "missing-key-empty", "building an encrypted change with empty content and without a key returned %v", err)
	}
}

// faultyRotation: an admin's client builds a rotation with the real builder and then gets the recipient list
// wrong - one member listed twice, another left out - before signing. Such a record is validly signed; if it is
// accepted, the member left out keeps its permission without the new key (the derivation oracle sees that).
func (c *c05) faultyRotation() int {
	w := c.world
	s := w.r.Src
	actor := w.pickActor("faulty-admin")
	v := w.views[actor.Name]
	if v.stuck {
		return -1
	}
	w.catchUp(v, len(w.chain)-1)
	if v.stuck || !v.acl.AclState().Permissions(actor.Pub()).CanManageAccounts() {
		return -1
	}
	if k, err := v.acl.AclState().CurrentReadKey(); err != nil || k == nil {
		return -1
	}
	raw, err := v.acl.RecordBuilder().BuildReadKeyChange(newKeys())
	if err != nil {
		return -1
	}
	rec := &consensusproto.Record{}
	must(rec.UnmarshalVT(raw.Payload))
	data := &aclrecordproto.AclData{}
	must(data.UnmarshalVT(rec.Data))
	var rk *aclrecordproto.AclReadKeyChange
	for _, ct := range data.AclContent {
		if ct.GetReadKeyChange() != nil {
			rk = ct.GetReadKeyChange()
		}
	}
	if rk == nil || len(rk.AccountKeys) < 2 {
		return -1
	}
	i := s.Choose("dup-from", len(rk.AccountKeys))
	j := s.Choose("dup-over", len(rk.AccountKeys)-1)
	if j >= i {
		j++
	}
	rk.AccountKeys[j] = &aclrecordproto.AclEncryptedReadKey{Identity: append([]byte{}, rk.AccountKeys[i].Identity...), EncryptedReadKey: append([]byte{}, rk.AccountKeys[i].EncryptedReadKey...)}
	w.r.Fault("byzantine-record")
	k, err := w.submit(actor, w.space.SignData(actor, data, rec.PrevId), "byz: rotation listing one member twice and leaving one out")
	w.r.Event("faulty-rotation", "%s: accepted=%v", actor.Name, err == nil)
	if err != nil {
		w.r.Probe("faulty-rotation-rejected")
		return -1
	}
	return k
}

func runC05(r *core.Run) {
	s := r.Src
	n := 5 + s.Choose("naccs", 4)
	c := &c05{world: newWorld(r, accountNames[:n]), refs: map[string]list.AclList{}, lastHeld: map[string]int{}, genKey: map[int][]byte{}, revoked: map[int]int{},
		plain: map[string][]byte{}, changeGen: map[string]int{}}
	w := c.world
	defer w.cleanup()
	for _, a := range w.accs {
		st, err := list.NewInMemoryStorage(w.chain[0].Id, w.chain[:1])
		must(err)
		ref, err := list.BuildAclListWithIdentity(a.Keys, st, recordverifier.NewValidateFull())
		must(err)
		c.refs[a.Name] = ref
		c.lastHeld[a.Name] = -1
	}
	c.setupTree()
	defer func() { _ = c.db.Close() }()
	if s.Flip("long-lived-tree", 0.5) {
		t, err := c.treeFor(w.accs[0])
		must(err)
		c.longLived = t
	}
	onAccept := func(before preState, k int) {
		c.noteRevocations(before, k)
		c.advanceRefs()
		c.keyCheck()
		c.rawRecordCheck(before, k)
		r.State(core.Mix(0, w.abstract()))
	}
	c.keyCheck()
	w.bootstrap(onAccept)
	steps := s.Range("steps", 10, 60)
	for i := 0; i < steps; i++ {
		if s.Flip("edit", 0.25) {
			c.edit()
			if s.Flip("read", 0.5) {
				c.readCheck()
			}
			continue
		}
		before := w.pre()
		if s.Flip("faulty-rotation", 0.08) {
			if k := c.faultyRotation(); k >= 0 {
				onAccept(before, k)
			}
			continue
		}
		if k := w.honestOp(); k >= 0 {
			onAccept(before, k)
		}
	}
	c.edit()
	c.readCheck()
	c.missingKeyCheck()
	r.Nontriv = len(w.chain) >= 4 && len(c.genKey) >= 1
	r.SetCfg("key_generations", len(c.genKey))
	r.SetCfg("edits", c.nEdits)
}

var _ = consensusproto.RawRecord{}
