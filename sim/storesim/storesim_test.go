// Package storesim: all-or-nothing persistence of space, tree and ACL operations under process
// death and storage errors at every boundary of the storage layer (C10).
// Real code: spacestorage, headstorage, objecttree (tree, builder, storage, deferred storage), acl list
// and storage, any-store / SQLite. Harness-owned: faultstore (anystore.DB wrapper).
package storesim

import (
	"context"
	"errors"
	"fmt"
	"os"
	"path/filepath"
	"sort"
	"strings"
	"testing"

	anystore "github.com/anyproto/any-store"

	"github.com/anyproto/any-sync/commonspace/headsync/headstorage"
	"github.com/anyproto/any-sync/commonspace/object/acl/list"
	"github.com/anyproto/any-sync/commonspace/object/acl/recordverifier"
	"github.com/anyproto/any-sync/commonspace/object/tree/objecttree"
	"github.com/anyproto/any-sync/commonspace/object/tree/treechangeproto"
	"github.com/anyproto/any-sync/commonspace/object/tree/treestorage"
	"github.com/anyproto/any-sync/commonspace/spacestorage"

	"verif/sim/core"
	"verif/sim/faultstore"
	"verif/sim/simlib"
)

var props = map[string]core.PropFn{"C10": runC10}

func TestSim(t *testing.T) {
	core.QuietLogs()
	core.Main(t, "storesim", props)
}

var ctxb = context.Background()

func must(err error) {
	if err != nil {
		panic(err)
	}
}

// env is one opened database with the objects built on it.
type env struct {
	dir  string
	raw  anystore.DB
	db   anystore.DB // possibly wrapped
	plan *faultstore.Plan
	ss   spacestorage.SpaceStorage
	acl  list.AclList
	tree objecttree.ObjectTree
}

type scenario struct {
	name    string
	space   *simlib.Space
	owner   *simlib.Account
	baseDir string
	treeId  string
	// open prepares the objects the operation acts on (not part of the operation: plan unarmed)
	open func(e *env)
	// op is the operation under test; deterministic for a given pre-state
	op func(e *env) error
	// live returns (in-memory heads/head, durable heads/head) of the object the operation extends
	live func(e *env) (mem, durable string, err error)
}

func copyDir(src, dst string) {
	must(os.MkdirAll(dst, 0o755))
	ents, err := os.ReadDir(src)
	must(err)
	for _, e := range ents {
		if e.IsDir() || strings.HasSuffix(e.Name(), "-shm") {
			continue
		}
		b, err := os.ReadFile(filepath.Join(src, e.Name()))
		must(err)
		must(os.WriteFile(filepath.Join(dst, e.Name()), b, 0o644))
	}
}

func openEnv(dir string, plan *faultstore.Plan) *env {
	e := &env{dir: dir, plan: plan}
	e.raw = simlib.OpenStore(filepath.Join(dir, "store.db"))
	e.db = e.raw
	if plan != nil {
		e.db = faultstore.Wrap(e.raw, plan)
	}
	return e
}

func (e *env) close() {
	if e.raw != nil {
		_ = e.raw.Close()
		e.raw = nil
	}
}

func (e *env) openSpace(sc *scenario) {
	var err error
	e.ss, err = spacestorage.New(ctxb, sc.space.Id, e.db)
	must(err)
	aclSt, err := e.ss.AclStorage()
	must(err)
	e.acl, err = list.BuildAclListWithIdentity(sc.owner.Keys, aclSt, recordverifier.NewValidateFull())
	must(err)
}

func (e *env) openTree(sc *scenario) {
	st, err := e.ss.TreeStorage(ctxb, sc.treeId)
	must(err)
	e.tree, err = objecttree.BuildObjectTree(st, e.acl)
	must(err)
}

// ---- logical dump ----------------------------------------------------------------------------------

// dump opens the database directory read-only in spirit (its own handle) and returns the logical
// content plus structural problems found.
func dump(dir, spaceId string) (d string, problems []string, openErr error) {
	db, err := anystore.Open(ctxb, filepath.Join(dir, "store.db"), &anystore.Config{SQLiteConnectionOptions: map[string]string{"synchronous": "off"}})
	if err != nil {
		return "", nil, fmt.Errorf("open: %w", err)
	}
	defer db.Close()
	names, err := db.GetCollectionNames(ctxb)
	if err != nil {
		return "", nil, err
	}
	if len(names) == 0 {
		return "<empty database>", nil, nil
	}
	ss, err := spacestorage.New(ctxb, spaceId, db)
	if err != nil {
		// no space in this database (crash before the creating transaction committed)
		return "<no space: " + shortErr(err) + ">", nil, nil
	}
	var sb strings.Builder
	var entries []headstorage.HeadsEntry
	for _, deleted := range []bool{false, true} {
		err = ss.HeadStorage().IterateEntries(ctxb, headstorage.IterOpts{Deleted: deleted}, func(e headstorage.HeadsEntry) (bool, error) {
			entries = append(entries, e)
			return true, nil
		})
		if err != nil {
			return "", nil, fmt.Errorf("iterate head entries: %w", err)
		}
	}
	sort.Slice(entries, func(i, j int) bool { return entries[i].Id < entries[j].Id })
	aclSt, err := ss.AclStorage()
	if err != nil {
		return "", nil, fmt.Errorf("acl storage: %w", err)
	}
	aclId := aclSt.Id()
	for _, e := range entries {
		hs := append([]string{}, e.Heads...)
		sort.Strings(hs)
		fmt.Fprintf(&sb, "entry %s heads=%v snapshot=%s deleted=%d\n", sh(e.Id), shs(hs), sh(e.CommonSnapshot), e.DeletedStatus)
		if e.Id == aclId {
			continue
		}
		st, err := ss.TreeStorage(ctxb, e.Id)
		if err != nil {
			problems = append(problems, fmt.Sprintf("tree %s has a head entry but its storage does not open: %v", sh(e.Id), err))
			continue
		}
		type ch struct {
			prev     []string
			snapshot string
			order    string
		}
		stored := map[string]ch{}
		var seq []string
		err = st.GetAfterOrder(ctxb, "", func(_ context.Context, c objecttree.StorageChange) (bool, error) {
			stored[c.Id] = ch{append([]string{}, c.PrevIds...), c.SnapshotId, c.OrderId}
			seq = append(seq, c.Id)
			fmt.Fprintf(&sb, "  change %s prev=%v snapshot=%s order=%q\n", sh(c.Id), shs(c.PrevIds), sh(c.SnapshotId), c.OrderId)
			return true, nil
		})
		if err != nil {
			problems = append(problems, fmt.Sprintf("tree %s: iterate: %v", sh(e.Id), err))
		}
		for _, h := range e.Heads {
			if _, ok := stored[h]; !ok {
				problems = append(problems, fmt.Sprintf("tree %s: recorded head %s is not a stored change", sh(e.Id), sh(h)))
			}
		}
		for id, c := range stored {
			for _, p := range c.prev {
				pc, ok := stored[p]
				if !ok {
					problems = append(problems, fmt.Sprintf("tree %s: change %s has parent %s which is not stored", sh(e.Id), sh(id), sh(p)))
				} else if !(pc.order < c.order) {
					problems = append(problems, fmt.Sprintf("tree %s: change %s is not ordered after its parent %s", sh(e.Id), sh(id), sh(p)))
				}
			}
			if c.snapshot != "" {
				if _, ok := stored[c.snapshot]; !ok {
					problems = append(problems, fmt.Sprintf("tree %s: change %s has snapshot base %s which is not stored", sh(e.Id), sh(id), sh(c.snapshot)))
				}
			}
		}
		// reopening yields a valid object with those heads
		aclList, err := list.BuildAclListWithIdentity(dumpKeys.Keys, aclSt, recordverifier.NewValidateFull())
		if err != nil {
			problems = append(problems, fmt.Sprintf("acl does not rebuild: %v", err))
			continue
		}
		t, err := objecttree.BuildObjectTree(st, aclList)
		if err != nil {
			problems = append(problems, fmt.Sprintf("tree %s does not rebuild from storage: %v", sh(e.Id), err))
			continue
		}
		th := append([]string{}, t.Heads()...)
		sort.Strings(th)
		eh := append([]string{}, e.Heads...)
		sort.Strings(eh)
		if fmt.Sprint(th) != fmt.Sprint(eh) {
			problems = append(problems, fmt.Sprintf("tree %s rebuilt from storage has heads %v, recorded heads are %v", sh(e.Id), shs(th), shs(eh)))
		}
	}
	// ACL
	head, err := aclSt.Head(ctxb)
	if err != nil {
		problems = append(problems, fmt.Sprintf("acl head unreadable: %v", err))
	}
	var last, prev string
	n := 0
	err = aclSt.GetAfterOrder(ctxb, 1, func(_ context.Context, r list.StorageRecord) (bool, error) {
		n++
		fmt.Fprintf(&sb, "acl #%d %s prev=%s\n", r.Order, sh(r.Id), sh(r.PrevId))
		if r.PrevId != prev {
			problems = append(problems, fmt.Sprintf("acl record %s (order %d) does not extend %s", sh(r.Id), r.Order, sh(prev)))
		}
		prev, last = r.Id, r.Id
		return true, nil
	})
	if err != nil {
		problems = append(problems, fmt.Sprintf("acl iterate: %v", err))
	}
	fmt.Fprintf(&sb, "acl head %s\n", sh(head))
	if head != last {
		problems = append(problems, fmt.Sprintf("acl head %s is not the last stored record %s", sh(head), sh(last)))
	}
	if l, err := list.BuildAclListWithIdentity(dumpKeys.Keys, aclSt, recordverifier.NewValidateFull()); err != nil {
		problems = append(problems, fmt.Sprintf("acl does not rebuild from storage: %v", err))
	} else if l.Head().Id != head {
		problems = append(problems, fmt.Sprintf("acl rebuilt from storage has head %s, storage says %s", sh(l.Head().Id), sh(head)))
	}
	return sb.String(), problems, nil
}

var dumpKeys *simlib.Account

func sh(id string) string {
	if len(id) > 6 {
		return id[len(id)-6:]
	}
	return id
}

func shs(ids []string) string {
	s := make([]string, len(ids))
	for i, id := range ids {
		s[i] = sh(id)
	}
	return "[" + strings.Join(s, ",") + "]"
}

func shortErr(err error) string {
	s := err.Error()
	if len(s) > 60 {
		s = s[:60]
	}
	return s
}

// ---- scenarios -------------------------------------------------------------------------------------

type builder struct {
	r     *core.Run
	root  string // scratch root
	owner *simlib.Account
	space *simlib.Space
}

func (b *builder) newDir(tag string) string {
	d := filepath.Join(b.root, tag)
	must(os.MkdirAll(d, 0o755))
	return d
}

func (b *builder) treeRoot(acl list.AclList) *treechangeproto.RawTreeChangeWithId {
	seed := make([]byte, 32)
	_, _ = b.r.Crypto.Read(seed)
	root, err := objecttree.CreateObjectTreeRoot(objecttree.ObjectTreeCreatePayload{PrivKey: b.owner.Keys.SignKey, ChangeType: "sim.tree", ChangePayload: []byte("p"),
		SpaceId: b.space.Id, IsEncrypted: false, Seed: seed, Timestamp: 946684800}, acl)
	must(err)
	return root
}

func addN(t objecttree.ObjectTree, key *simlib.Account, from, n int, snapshotAt int) (added []*treechangeproto.RawTreeChangeWithId) {
	for i := 0; i < n; i++ {
		t.Lock()
		res, err := t.AddContent(ctxb, objecttree.SignableChangeContent{Data: []byte(fmt.Sprintf("content-%d", from+i)), Key: key.Keys.SignKey, IsSnapshot: from+i == snapshotAt, Timestamp: int64(946684800 + from + i)})
		t.Unlock()
		must(err)
		added = append(added, res.RawChanges()...)
	}
	return
}

// baseSpace creates a database holding the space (and optionally a tree with n changes).
func (b *builder) baseSpace(tag string, nChanges int, snapshotAt int) (dir, treeId string, changes []*treechangeproto.RawTreeChangeWithId, root *treechangeproto.RawTreeChangeWithId) {
	dir = b.newDir(tag)
	e := openEnv(dir, nil)
	defer e.close()
	var err error
	e.ss, err = spacestorage.Create(ctxb, e.db, b.space.Payload)
	must(err)
	aclSt, err := e.ss.AclStorage()
	must(err)
	e.acl, err = list.BuildAclListWithIdentity(b.owner.Keys, aclSt, recordverifier.NewValidateFull())
	must(err)
	if nChanges < 0 {
		return
	}
	root = b.treeRoot(e.acl)
	st, err := e.ss.CreateTreeStorage(ctxb, treestorage.TreeStorageCreatePayload{RootRawChange: root, Changes: []*treechangeproto.RawTreeChangeWithId{root}, Heads: []string{root.Id}})
	must(err)
	t, err := objecttree.BuildObjectTree(st, e.acl)
	must(err)
	changes = addN(t, b.owner, 1, nChanges, snapshotAt)
	return dir, root.Id, changes, root
}

func treeLive(e *env) (string, string, error) {
	if e.tree == nil {
		return "", "", nil
	}
	mh := append([]string{}, e.tree.Heads()...)
	sort.Strings(mh)
	dh, err := e.tree.Storage().Heads(ctxb)
	if err != nil {
		return "", "", err
	}
	dh = append([]string{}, dh...)
	sort.Strings(dh)
	return shs(mh), shs(dh), nil
}

func (b *builder) scenario() *scenario {
	s := b.r.Src
	sc := &scenario{space: b.space, owner: b.owner}
	// the 500+ change batch costs ten times a normal run: rare in the quick tier
	wBig := 1
	scale := 3
	if b.r.Tier == "thorough" {
		scale = 1
	}
	kind := s.Weighted("scenario", []int{2 * scale, 2 * scale, 3 * scale, 4 * scale, 3 * scale, 4 * scale, 3 * scale, 3 * scale, wBig})
	big := kind == 8
	if big {
		kind = 5
	}
	switch kind {
	case 0:
		sc.name = "space-create"
		sc.baseDir = b.newDir("base")
		sc.open = func(e *env) {}
		sc.op = func(e *env) error {
			_, err := spacestorage.Create(ctxb, e.db, b.space.Payload)
			return err
		}
	case 1:
		sc.name = "tree-create"
		dir, _, _, _ := b.baseSpace("base", -1, 0)
		sc.baseDir = dir
		var root *treechangeproto.RawTreeChangeWithId
		sc.open = func(e *env) {
			e.openSpace(sc)
			if root == nil {
				root = b.treeRoot(e.acl)
			}
		}
		sc.op = func(e *env) error {
			_, err := e.ss.CreateTreeStorage(ctxb, treestorage.TreeStorageCreatePayload{RootRawChange: root, Changes: []*treechangeproto.RawTreeChangeWithId{root}, Heads: []string{root.Id}})
			return err
		}
	case 2:
		sc.name = "tree-create-deferred+first-add"
		// author: the same tree with changes, in its own database
		n := s.Range("n", 0, 5)
		_, _, changes, root := b.baseSpace("author", n, s.Choose("snap", n+2))
		if n == 0 {
			// a tree received with nothing but its root
			sc.name = "tree-create-deferred-root-only"
			changes = []*treechangeproto.RawTreeChangeWithId{root}
		}
		dir, _, _, _ := b.baseSpace("base", -1, 0)
		sc.baseDir = dir
		sc.treeId = root.Id
		heads := []string{changes[len(changes)-1].Id}
		sc.open = func(e *env) { e.openSpace(sc) }
		// after a failed attempt the caller either starts over with a new object or tries the same live tree again
		sameObject := s.Flip("retry-on-the-same-object", 0.5)
		if sameObject {
			sc.name += "(retry on the live tree)"
		}
		sc.op = func(e *env) error {
			t := e.tree
			if t == nil || !sameObject {
				st, err := e.ss.CreateStorageWithDeferredCreation(ctxb, treestorage.TreeStorageCreatePayload{RootRawChange: root, Heads: []string{root.Id}})
				if err != nil {
					return err
				}
				t, err = objecttree.BuildObjectTree(st, e.acl)
				if err != nil {
					return err
				}
				e.tree = t
			}
			t.Lock()
			defer t.Unlock()
			_, err := t.AddRawChanges(ctxb, objecttree.RawChangesPayload{NewHeads: heads, RawChanges: changes})
			return err
		}
		sc.live = func(e *env) (string, string, error) { return "", "", nil } // the object is created by the operation
	case 3, 4:
		snap := kind == 4
		sc.name = "local-add"
		if snap {
			sc.name = "local-snapshot-add"
		}
		n := s.Range("n", 0, 6)
		dir, treeId, _, _ := b.baseSpace("base", n, s.Choose("snap", n+3))
		sc.baseDir, sc.treeId = dir, treeId
		sc.open = func(e *env) { e.openSpace(sc); e.openTree(sc) }
		sc.op = func(e *env) error {
			e.tree.Lock()
			defer e.tree.Unlock()
			_, err := e.tree.AddContent(ctxb, objecttree.SignableChangeContent{Data: []byte("the-new-content"), Key: b.owner.Keys.SignKey, IsSnapshot: snap, Timestamp: 946685000})
			return err
		}
		sc.live = treeLive
	case 5:
		sc.name = "remote-add"
		// the victim holds a prefix of the author's changes
		n := s.Range("n", 2, 8)
		if big {
			sc.name = "remote-add-big-batch"
			n = 505 + s.Choose("nbig", 60)
		}
		adir, treeId, changes, _ := b.baseSpace("author", n, s.Choose("snap", n+3))
		keep := s.Choose("keep", n) // victim holds the first `keep` changes
		if big {
			keep = s.Choose("keep", 3)
		}
		vdir, _, _, _ := b.baseSpaceWithRoot("base", treeIdRoot(adir, b, treeId), changes[:keep])
		sc.baseDir, sc.treeId = vdir, treeId
		payload := objecttree.RawChangesPayload{NewHeads: []string{changes[n-1].Id}, RawChanges: changes[keep:]}
		sc.open = func(e *env) { e.openSpace(sc); e.openTree(sc) }
		sc.op = func(e *env) error {
			e.tree.Lock()
			defer e.tree.Unlock()
			_, err := e.tree.AddRawChanges(ctxb, payload)
			return err
		}
		sc.live = treeLive
	case 6:
		sc.name = "remote-add-rebuild-from-storage"
		// common prefix; the victim then adds a snapshot (and is reopened: in-memory root = that snapshot);
		// the author adds a change on the common prefix, based on the older snapshot
		n := s.Range("n", 1, 4)
		adir, treeId, changes, _ := b.baseSpace("author", n, -1)
		vdir, _, _, _ := b.baseSpaceWithRoot("base", treeIdRoot(adir, b, treeId), changes)
		// victim: snapshot on top
		func() {
			e := openEnv(vdir, nil)
			defer e.close()
			scTmp := &scenario{space: b.space, owner: b.owner, treeId: treeId}
			e.openSpace(scTmp)
			e.openTree(scTmp)
			addN(e.tree, b.owner, 100, 1+s.Choose("more", 2), 100)
		}()
		// author: concurrent change on the old heads
		var late []*treechangeproto.RawTreeChangeWithId
		func() {
			e := openEnv(adir, nil)
			defer e.close()
			scTmp := &scenario{space: b.space, owner: b.owner, treeId: treeId}
			e.openSpace(scTmp)
			e.openTree(scTmp)
			late = addN(e.tree, b.owner, 200, 1+s.Choose("late", 2), -1)
		}()
		sc.baseDir, sc.treeId = vdir, treeId
		payload := objecttree.RawChangesPayload{NewHeads: []string{late[len(late)-1].Id}, RawChanges: late}
		sc.open = func(e *env) { e.openSpace(sc); e.openTree(sc) }
		sc.op = func(e *env) error {
			e.tree.Lock()
			defer e.tree.Unlock()
			_, err := e.tree.AddRawChanges(ctxb, payload)
			return err
		}
		sc.live = treeLive
	default:
		sc.name = "acl-add-record"
		withTree := s.Flip("with-tree", 0.5)
		nc := -1
		if withTree {
			nc = 2
		}
		dir, _, _, _ := b.baseSpace("base", nc, -1)
		sc.baseDir = dir
		// records are built on the authority's in-memory list; some are already in the base
		pre := s.Choose("pre-records", 3)
		accs := []*simlib.Account{simlib.NewAccount("m1"), simlib.NewAccount("m2"), simlib.NewAccount("m3"), simlib.NewAccount("m4")}
		for i := 0; i <= pre; i++ {
			switch s.Choose("acl-kind", 3) {
			case 0:
				b.space.Add(list.AclPermissionsWriter, accs[i])
			case 1:
				b.space.Add(list.AclPermissionsReader, accs[i])
			default:
				b.space.Add(list.AclPermissionsWriter, accs[i])
				if i == pre {
					b.space.ChangePerm(accs[i], list.AclPermissionsReader)
				}
			}
		}
		all := b.space.Records
		func() {
			e := openEnv(dir, nil)
			defer e.close()
			scTmp := &scenario{space: b.space, owner: b.owner}
			e.openSpace(scTmp)
			for _, r := range all[:len(all)-1] {
				must(e.acl.AddRawRecord(r))
			}
		}()
		rec := all[len(all)-1]
		sc.open = func(e *env) { e.openSpace(sc) }
		sc.op = func(e *env) error {
			e.acl.Lock()
			defer e.acl.Unlock()
			return e.acl.AddRawRecord(rec)
		}
		sc.live = func(e *env) (string, string, error) {
			aclSt, err := e.ss.AclStorage()
			if err != nil {
				return "", "", err
			}
			h, err := aclSt.Head(ctxb)
			return sh(e.acl.Head().Id) + fmt.Sprintf("/%d records", len(e.acl.Records())), sh(h) + fmt.Sprintf("/%d records", countAcl(aclSt)), err
		}
	}
	return sc
}

func countAcl(st list.Storage) int {
	n := 0
	_ = st.GetAfterOrder(ctxb, 1, func(context.Context, list.StorageRecord) (bool, error) { n++; return true, nil })
	return n
}

// treeIdRoot reads the root change of a tree from a database directory.
func treeIdRoot(dir string, b *builder, treeId string) *treechangeproto.RawTreeChangeWithId {
	e := openEnv(dir, nil)
	defer e.close()
	sc := &scenario{space: b.space, owner: b.owner, treeId: treeId}
	e.openSpace(sc)
	st, err := e.ss.TreeStorage(ctxb, treeId)
	must(err)
	r, err := st.Root(ctxb)
	must(err)
	return r.RawTreeChangeWithId()
}

// baseSpaceWithRoot creates a space database holding the tree with the given root and raw changes.
func (b *builder) baseSpaceWithRoot(tag string, root *treechangeproto.RawTreeChangeWithId, changes []*treechangeproto.RawTreeChangeWithId) (dir, treeId string, _ []*treechangeproto.RawTreeChangeWithId, _ *treechangeproto.RawTreeChangeWithId) {
	dir = b.newDir(tag)
	e := openEnv(dir, nil)
	defer e.close()
	var err error
	e.ss, err = spacestorage.Create(ctxb, e.db, b.space.Payload)
	must(err)
	aclSt, err := e.ss.AclStorage()
	must(err)
	e.acl, err = list.BuildAclListWithIdentity(b.owner.Keys, aclSt, recordverifier.NewValidateFull())
	must(err)
	st, err := e.ss.CreateTreeStorage(ctxb, treestorage.TreeStorageCreatePayload{RootRawChange: root, Changes: []*treechangeproto.RawTreeChangeWithId{root}, Heads: []string{root.Id}})
	must(err)
	t, err := objecttree.BuildObjectTree(st, e.acl)
	must(err)
	if len(changes) > 0 {
		t.Lock()
		_, err = t.AddRawChanges(ctxb, objecttree.RawChangesPayload{NewHeads: []string{changes[len(changes)-1].Id}, RawChanges: changes})
		t.Unlock()
		must(err)
	}
	return dir, root.Id, changes, root
}

// ---- the enumeration ---------------------------------------------------------------------------------

func runC10(r *core.Run) {
	s := r.Src
	b := &builder{r: r, root: simlib.ScratchDir("store")}
	defer os.RemoveAll(b.root)
	b.owner = simlib.NewAccount("owner")
	dumpKeys = b.owner
	b.space = simlib.NewSpace(b.owner, 0)
	sc := b.scenario()
	reads := s.Flip("read-boundaries", 0.5)
	r.SetCfg("scenario", sc.name)
	r.SetCfg("read_boundaries", reads)
	leg := 0
	legDir := func() string {
		leg++
		d := filepath.Join(b.root, fmt.Sprintf("leg%d", leg))
		copyDir(sc.baseDir, d)
		return d
	}
	before, probs, err := dump(sc.baseDir, b.space.Id)
	if err != nil || len(probs) > 0 {
		r.Fail("harness-prestate-invalid", "", "%s: pre-state dump: %v %v", sc.name, err, probs)
	}
	// pass 0: count the boundaries and obtain the after-state
	plan := &faultstore.Plan{Reads: reads}
	d0 := legDir()
	e := openEnv(d0, plan)
	sc.open(e)
	plan.Armed = true
	err = sc.op(e)
	plan.Armed = false
	e.close()
	if err != nil {
		r.Fail("operation-fails-without-faults", sc.name, "%s fails without any fault: %v", sc.name, err)
	}
	after, probs, err := dump(d0, b.space.Id)
	if err != nil || len(probs) > 0 {
		r.Fail("inconsistent-after-state", sc.name, "%s: after-state: %v %v", sc.name, err, probs)
	}
	if after == before {
		r.Fail("success-but-nothing-durable", sc.name, "%s reported success but the durable state is unchanged", sc.name)
	}
	calls := append([]string{}, plan.Calls...)
	nb := len(calls)
	r.SetCfg("boundaries", nb)
	r.Event("scenario:"+sc.name, "crosses %d boundaries: %s", nb, strings.Join(calls, " "))
	// operations crossing very many boundaries (a 500+ change batch): the legs are sampled (first 3, last 3
	// and 5 seeded ones) instead of enumerated
	sel := map[int]bool{}
	if nb > 60 {
		for k := 1; k <= 3; k++ {
			sel[k], sel[nb+1-k] = true, true
		}
		for i := 0; i < 5; i++ {
			sel[1+s.Choose("leg", nb)] = true
		}
		r.Probe("legs-sampled")
	}
	for k := 1; k <= nb; k++ {
		if len(sel) > 0 && !sel[k] {
			continue
		}
		r.Event("legs@"+calls[k-1], "boundary %d/%d: crash images before/after + injected error", k, nb)
		// crash leg: images before and after call k
		plan := &faultstore.Plan{Reads: reads, CrashAt: k}
		d := legDir()
		var images []string
		plan.Image = func(phase string, n int, name string) {
			img := filepath.Join(b.root, fmt.Sprintf("img-%d-%s", k, phase))
			copyDir(d, img)
			images = append(images, img)
		}
		e := openEnv(d, plan)
		sc.open(e)
		plan.Armed = true
		err := sc.op(e)
		plan.Armed = false
		e.close()
		if err != nil {
			r.Fail("operation-fails-without-faults", sc.name+"/crash-leg", "%s fails in a crash leg (no error injected): %v", sc.name, err)
		}
		for i, img := range images {
			got, probs, err := dump(img, b.space.Id)
			phase := []string{"before", "after"}[i%2]
			if err != nil {
				r.Fail("crash-image-unreadable", sc.name, "%s: process death %s boundary %d (%s): the database does not open / read: %v", sc.name, phase, k, calls[k-1], err)
			}
			if len(probs) > 0 {
				r.Fail("crash-image-inconsistent", sc.name, "%s: process death %s boundary %d (%s) leaves an inconsistent durable state:\n %s\n%s", sc.name, phase, k, calls[k-1], strings.Join(probs, "\n "), got)
			}
			if got != before && got != after {
				r.Fail("crash-image-not-atomic", sc.name, "%s: process death %s boundary %d (%s) leaves a durable state that is neither the state before nor after the operation\n--- image\n%s--- before\n%s--- after\n%s", sc.name, phase, k, calls[k-1], got, before, after)
			}
			if got == before {
				r.Probe("image=before")
			} else {
				r.Probe("image=after")
			}
			r.Count("evals")
			r.Fault("crash")
			_ = os.RemoveAll(img)
		}
		// error leg: call k fails (once, or from then on)
		sticky := s.Flip("sticky", 0.3)
		plan = &faultstore.Plan{Reads: reads, FailAt: k, Sticky: sticky}
		d = legDir()
		e = openEnv(d, plan)
		sc.open(e)
		plan.Armed = true
		err = sc.op(e)
		plan.Armed = false
		plan.Disarm()
		r.Fault("storage-error")
		if sticky {
			r.Fault("storage-error-sticky")
		}
		opFailed := err != nil
		if sc.live != nil {
			mem, dur, lerr := sc.live(e)
			if lerr != nil {
				r.Fail("live-object-broken", sc.name, "%s: after an injected error at boundary %d (%s) the live object cannot be read: %v", sc.name, k, calls[k-1], lerr)
			}
			if mem != dur {
				r.Fail("live-object-ahead-of-storage", sc.name, "%s: injected error at boundary %d (%s), operation returned %v: the live object says %s, storage says %s", sc.name, k, calls[k-1], err, mem, dur)
			}
		}
		// the same input again
		plan.Armed = true
		err2 := sc.op(e)
		plan.Armed = false
		e.close()
		got, probs, derr := dump(d, b.space.Id)
		if derr != nil || len(probs) > 0 {
			r.Fail("state-inconsistent-after-error", sc.name, "%s: injected error at boundary %d (%s) then retry: %v\n %s", sc.name, k, calls[k-1], derr, strings.Join(probs, "\n "))
		}
		if opFailed {
			r.Probe("operation-reported-the-error")
			if err2 != nil && !benignRetryErr(err2) {
				r.Fail("retry-fails", sc.name, "%s: after a failed (injected error at boundary %d, %s: %v) attempt the same input is refused: %v", sc.name, k, calls[k-1], err, err2)
			}
		} else {
			r.Probe("operation-swallowed-the-error")
		}
		if got != after {
			r.Fail("retry-state-differs", sc.name, "%s: injected error at boundary %d (%s; first attempt: %v, retry: %v): the durable state is not the after-state\n--- got\n%s--- want\n%s", sc.name, k, calls[k-1], err, err2, got, after)
		}
		r.Count("evals")
	}
	r.Nontriv = nb >= 3
	r.State(core.Mix(0, sc.name, fmt.Sprint(nb)))
}

// benignRetryErr: the first attempt had already succeeded durably, the retry says "exists".
func benignRetryErr(err error) bool {
	return errors.Is(err, spacestorage.ErrSpaceStorageExists) || errors.Is(err, treestorage.ErrTreeExists) || errors.Is(err, list.ErrRecordAlreadyExists)
}
