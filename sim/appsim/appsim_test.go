// Package appsim: C20 — component container under injected component failures.
// Real code: app.App. Stubs: the components (harness-owned, fail on plan).
package appsim

import (
	"context"
	"errors"
	"fmt"
	"strings"
	"testing"

	"github.com/anyproto/any-sync/app"

	"verif/sim/core"
)

func TestSim(t *testing.T) {
	core.QuietLogs()
	core.Main(t, "appsim", map[string]core.PropFn{"C20": runC20})
}

type plan struct {
	failInit  string // component key whose Init fails
	failRun   string
	failClose map[string]bool
	errKind   int // what a failing component returns: its own error, or one that wraps a context error
}

// fail: the error a failing component returns. A component may well report the end of a context of its own.
func (p plan) fail(key, what string) error {
	switch p.errKind {
	case 1:
		return fmt.Errorf("%s of %s: %w: %w", what, key, errInjected, context.Canceled)
	case 2:
		return fmt.Errorf("%s of %s: %w: %w", what, key, errInjected, context.DeadlineExceeded)
	}
	return fmt.Errorf("%s of %s: %w", what, key, errInjected)
}

type world struct {
	r      *core.Run
	plan   plan
	calls  []string // "init:k", "run:k", "close:k"
	inited map[string]bool
	closed map[string]int
	looks  []lookup
}

type lookup struct {
	from, name string
	got        string // key of component found, "" if nil
}

type comp struct {
	w       *world
	key     string // unique instance key: "<app>/<name>"
	name    string
	lookups []string
}

var errInjected = errors.New("injected failure")

func (c *comp) Name() string { return c.name }
func (c *comp) Init(a *app.App) error {
	c.w.calls = append(c.w.calls, "init:"+c.key)
	c.w.inited[c.key] = true
	for _, n := range c.lookups {
		got := a.Component(n)
		k := ""
		switch g := got.(type) {
		case *comp:
			k = g.key
		case *rcomp:
			k = g.key
		}
		c.w.looks = append(c.w.looks, lookup{c.key, n, k})
	}
	if c.w.plan.failInit == c.key {
		return c.w.plan.fail(c.key, "init")
	}
	return nil
}

type rcomp struct{ comp }

func (c *rcomp) Run(ctx context.Context) error {
	if !c.w.inited[c.key] {
		c.w.r.Fail("use-before-init", "run", "Run called on %s before its Init", c.key)
	}
	c.w.calls = append(c.w.calls, "run:"+c.key)
	if c.w.plan.failRun == c.key {
		return c.w.plan.fail(c.key, "run")
	}
	return nil
}

func (c *rcomp) Close(ctx context.Context) error {
	if !c.w.inited[c.key] {
		c.w.r.Fail("use-before-init", "close", "Close called on %s before its Init", c.key)
	}
	c.w.calls = append(c.w.calls, "close:"+c.key)
	c.w.closed[c.key]++
	if c.w.plan.failClose[c.key] {
		return c.w.plan.fail(c.key, "close")
	}
	return nil
}

type compSpec struct {
	name     string
	runnable bool
	lookups  []string
}

type appSpec struct {
	label string
	comps []compSpec
}

var namePool = []string{"a", "b", "c", "d", "e", "f", "g", "h", "i", "j"}

func genApp(r *core.Run, label string, maxN int) appSpec {
	s := r.Src
	n := s.Range("ncomp", 1, maxN)
	as := appSpec{label: label}
	used := map[string]bool{}
	for i := 0; i < n; i++ {
		var free []string
		for _, x := range namePool {
			if !used[x] {
				free = append(free, x)
			}
		}
		nm := free[s.Choose("name", len(free))]
		used[nm] = true
		cs := compSpec{name: nm, runnable: s.Flip("runnable", 0.55)}
		nl := s.Choose("nlook", 3)
		for k := 0; k < nl; k++ {
			cs.lookups = append(cs.lookups, namePool[s.Choose("lookname", len(namePool))])
		}
		as.comps = append(as.comps, cs)
	}
	return as
}

// build registers fresh component instances for one leg. chain[0] is the root container.
func build(w *world, chain []appSpec) (apps []*app.App, keys [][]string, runn [][]bool) {
	var parent *app.App
	for _, as := range chain {
		var a *app.App
		if parent == nil {
			a = new(app.App)
		} else {
			a = parent.ChildApp()
		}
		var ks []string
		var rs []bool
		// some components are registered late: the container is asked for names in between (a lookup made before
		// a local component of that name exists resolves through the parents; afterwards it must resolve locally)
		lateFrom := len(as.comps)
		if w.r.Src.Flip("late-registration", 0.4) {
			lateFrom = w.r.Src.Choose("late-from", len(as.comps)+1)
		}
		for ci, cs := range as.comps {
			if ci == lateFrom {
				w.earlyLookups(a, chain, len(apps), lateFrom)
			}
			c := comp{w: w, key: as.label + "/" + cs.name, name: cs.name, lookups: cs.lookups}
			if cs.runnable {
				a.Register(&rcomp{c})
			} else {
				cc := c
				a.Register(&cc)
			}
			ks = append(ks, c.key)
			rs = append(rs, cs.runnable)
		}
		apps = append(apps, a)
		keys = append(keys, ks)
		runn = append(runn, rs)
		parent = a
	}
	return
}

// earlyLookups asks container a (level lvl, with its first n components registered) for some names before the rest
// is registered, and checks the answers against the reference resolution at that moment.
func (w *world) earlyLookups(a *app.App, chain []appSpec, lvl, n int) {
	s := w.r.Src
	for k := 0; k < 1+s.Choose("early-lookups", 3); k++ {
		name := namePool[s.Choose("early-name", len(namePool))]
		want := ""
		for l := lvl; l >= 0 && want == ""; l-- {
			comps := chain[l].comps
			if l == lvl {
				comps = comps[:n]
			}
			for _, c := range comps {
				if c.name == name {
					want = chain[l].label + "/" + c.name
					break
				}
			}
		}
		got := ""
		switch g := a.Component(name).(type) {
		case *comp:
			got = g.key
		case *rcomp:
			got = g.key
		}
		if got != want {
			w.r.Fail("lookup", "early", "lookup of %q in container L%d with %d components registered resolved to %q, want %q", name, lvl, n, got, want)
		}
		w.r.Probe("lookup-before-late-registration")
	}
}

// expectedStart is the reference model of Start for one container, written from the property text.
func expectedStart(keys []string, runn []bool, p plan) (calls []string, fails bool) {
	closeUpTo := func(i int) {
		for j := i; j >= 0; j-- {
			if runn[j] {
				calls = append(calls, "close:"+keys[j])
			}
		}
	}
	for i, k := range keys {
		calls = append(calls, "init:"+k)
		if p.failInit == k {
			closeUpTo(i)
			return calls, true
		}
	}
	for i, k := range keys {
		if !runn[i] {
			continue
		}
		calls = append(calls, "run:"+k)
		if p.failRun == k {
			closeUpTo(i)
			return calls, true
		}
	}
	return calls, false
}

func expectedClose(keys []string, runn []bool) (calls []string) {
	for j := len(keys) - 1; j >= 0; j-- {
		if runn[j] {
			calls = append(calls, "close:"+keys[j])
		}
	}
	return
}

func runC20(r *core.Run) {
	s := r.Src
	depth := 1 + s.Weighted("depth", []int{5, 3, 2})
	var chain []appSpec
	for d := 0; d < depth; d++ {
		chain = append(chain, genApp(r, fmt.Sprintf("L%d", d), 8))
	}
	r.SetCfg("depth", depth)
	shape := ""
	for _, as := range chain {
		for _, c := range as.comps {
			if c.runnable {
				shape += "R"
			} else {
				shape += "p"
			}
		}
		shape += "|"
	}
	r.SetCfg("shape", shape)
	r.Kinds = append(r.Kinds, "shape:"+shape)

	// enumerate legs: fault-free, init failure of every component of every level, run failure of
	// every runnable component, close error of every runnable (alone) and of all runnables at once.
	type leg struct {
		kind  string
		level int
		idx   int
	}
	legs := []leg{{"none", 0, 0}}
	for l, as := range chain {
		for i, c := range as.comps {
			legs = append(legs, leg{"init", l, i})
			if c.runnable {
				legs = append(legs, leg{"run", l, i}, leg{"closeerr", l, i})
			}
		}
	}
	legs = append(legs, leg{"closeerr-all", 0, 0})
	ctx := context.Background()
	for _, lg := range legs {
		w := &world{r: r, inited: map[string]bool{}, closed: map[string]int{}}
		w.plan.failClose = map[string]bool{}
		w.plan.errKind = s.Choose("err-kind", 3)
		apps, keys, runn := build(w, chain)
		switch lg.kind {
		case "init":
			w.plan.failInit = keys[lg.level][lg.idx]
			r.Fault("init-fail")
		case "run":
			w.plan.failRun = keys[lg.level][lg.idx]
			r.Fault("run-fail")
		case "closeerr":
			w.plan.failClose[keys[lg.level][lg.idx]] = true
			r.Fault("close-error")
		case "closeerr-all":
			for l := range keys {
				for i, k := range keys[l] {
					if runn[l][i] {
						w.plan.failClose[k] = true
					}
				}
			}
			r.Fault("close-error")
		}
		r.Count("evals")
		// start containers root-first; stop at the first failing level
		var want []string
		started := 0
		for l, a := range apps {
			exp, fails := expectedStart(keys[l], runn[l], w.plan)
			want = append(want, exp...)
			err := a.Start(ctx)
			if fails != (err != nil) {
				r.Fail("start-error", lg.kind, "leg %v level %d: Start err=%v, expected failure=%v", lg, l, err, fails)
			}
			if err != nil && !errors.Is(err, errInjected) {
				r.Fail("start-error", "wrap", "leg %v: Start error %v does not report the component's error", lg, err)
			}
			if fails {
				break
			}
			started++
		}
		// close started containers child-first
		for l := started - 1; l >= 0; l-- {
			want = append(want, expectedClose(keys[l], runn[l])...)
			err := apps[l].Close(ctx)
			anyFail := false
			for i, k := range keys[l] {
				if runn[l][i] && w.plan.failClose[k] {
					anyFail = true
				}
			}
			if anyFail != (err != nil) {
				r.Fail("close-error", lg.kind, "leg %v level %d: Close err=%v expected failure=%v", lg, l, err, anyFail)
			}
		}
		if strings.Join(w.calls, " ") != strings.Join(want, " ") {
			r.Fail("call-order", lg.kind, "leg %+v shape %s:\n got  %v\n want %v", lg, shape, w.calls, want)
		}
		// lookups: child-first, then parents
		for _, lk := range w.looks {
			lvl := int(lk.from[1] - '0')
			wantKey := ""
			for l := lvl; l >= 0 && wantKey == ""; l-- {
				for _, c := range chain[l].comps {
					if c.name == lk.name {
						wantKey = chain[l].label + "/" + c.name
						break
					}
				}
			}
			if lk.got != wantKey {
				r.Fail("lookup", "", "lookup of %q from %s resolved to %q, want %q", lk.name, lk.from, lk.got, wantKey)
			}
			if lk.got != "" && strings.HasPrefix(lk.got, "L") && lk.got[:2] != lk.from[:2] {
				r.Probe("lookup-resolved-in-parent")
			}
		}
		for k, n := range w.closed {
			if n > 1 {
				r.Fail("double-close", "", "component %s closed %d times in leg %+v", k, n, lg)
			}
		}
		r.Event("leg", "%s L%d#%d calls=%d", lg.kind, lg.level, lg.idx, len(w.calls))
	}
	r.Nontriv = len(legs) > 2
}
